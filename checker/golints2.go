package main

// More shapes of Go code that are wrong wherever they occur (round 10).  Each rule names the
// exact shape (positive evidence) and says nothing otherwise.

import (
	"fmt"
	"go/ast"
	"go/token"
	"go/types"
	"regexp"
	"strings"
)

// stmtLists: every statement list of a function body (blocks, case and select clauses), with
// labels removed from the statements.
func stmtLists(body ast.Node) [][]ast.Stmt {
	var out [][]ast.Stmt
	strip := func(l []ast.Stmt) []ast.Stmt {
		res := make([]ast.Stmt, len(l))
		for i, s := range l {
			for {
				ls, ok := s.(*ast.LabeledStmt)
				if !ok {
					break
				}
				s = ls.Stmt
			}
			res[i] = s
		}
		return res
	}
	ast.Inspect(body, func(x ast.Node) bool {
		switch b := x.(type) {
		case *ast.BlockStmt:
			out = append(out, strip(b.List))
		case *ast.CaseClause:
			out = append(out, strip(b.Body))
		case *ast.CommClause:
			out = append(out, strip(b.Body))
		}
		return true
	})
	return out
}

func hasGoto(body ast.Node) bool {
	found := false
	ast.Inspect(body, func(x ast.Node) bool {
		if bs, ok := x.(*ast.BranchStmt); ok && bs.Tok == token.GOTO {
			found = true
		}
		return !found
	})
	return found
}

// mentionsObj: does the node mention the object at all (use or definition)?
func mentionsObj(info *types.Info, n ast.Node, obj types.Object) bool {
	found := false
	ast.Inspect(n, func(x ast.Node) bool {
		if id, ok := x.(*ast.Ident); ok && (info.Uses[id] == obj || info.Defs[id] == obj) {
			found = true
		}
		return !found
	})
	return found
}

// localOnly: every identifier of the expression is a local variable, a parameter, a constant, nil
// or the builtins len and cap; there is no other call, no receive, no selector, no dereference
// and no index.  Such an expression has the same value as long as none of its variables is written.
func localOnly(info *types.Info, e ast.Expr) ([]types.Object, bool) {
	var vars []types.Object
	ok := true
	ast.Inspect(e, func(x ast.Node) bool {
		switch s := x.(type) {
		case *ast.CallExpr:
			if !(isBuiltinCall(info, s, "len") || isBuiltinCall(info, s, "cap")) || len(s.Args) != 1 {
				ok = false
			} else if t := info.TypeOf(s.Args[0]); t != nil {
				// the length of a map or a channel changes without an assignment to the variable
				switch u := t.Underlying().(type) {
				case *types.Slice, *types.Array:
				case *types.Basic:
					if u.Info()&types.IsString == 0 {
						ok = false
					}
				default:
					ok = false
				}
			}
		case *ast.SelectorExpr, *ast.StarExpr, *ast.IndexExpr, *ast.FuncLit, *ast.SliceExpr, *ast.TypeAssertExpr, *ast.CompositeLit:
			ok = false
		case *ast.UnaryExpr:
			if s.Op == token.ARROW || s.Op == token.AND {
				ok = false
			}
		case *ast.Ident:
			switch o := info.Uses[s].(type) {
			case *types.Var:
				if o.IsField() || o.Parent() == nil || o.Parent() == o.Pkg().Scope() {
					ok = false
				} else {
					vars = append(vars, o)
				}
			case *types.Const, *types.Nil, *types.Builtin:
			case nil:
			default:
				ok = false
			}
		}
		return ok
	})
	return vars, ok
}

// writesAny: does the node assign, step, range over into or take the address of one of the
// variables, or mention one of them inside a function literal?
func writesAny(info *types.Info, n ast.Node, vars []types.Object) bool {
	is := func(e ast.Expr) bool {
		o := identObj(info, e)
		if o == nil {
			return false
		}
		for _, v := range vars {
			if v == o {
				return true
			}
		}
		return false
	}
	found := false
	ast.Inspect(n, func(x ast.Node) bool {
		switch s := x.(type) {
		case *ast.AssignStmt:
			for _, l := range s.Lhs {
				if is(l) {
					found = true
				}
			}
		case *ast.IncDecStmt:
			if is(s.X) {
				found = true
			}
		case *ast.RangeStmt:
			if (s.Key != nil && is(s.Key)) || (s.Value != nil && is(s.Value)) {
				found = true
			}
		case *ast.UnaryExpr:
			if s.Op == token.AND && is(s.X) {
				found = true
			}
		case *ast.FuncLit:
			for _, v := range vars {
				if mentionsObj(info, s, v) {
					found = true
				}
			}
		}
		return !found
	})
	return found
}

// ---------------------------------------------------------------- a guard that repeats an earlier guard

// checkDuplicateGuards: `if C { ...; return }` followed, in the same statement list and with no
// write to the variables of C in between, by `if C { ... }`: whenever the second condition holds
// the first branch has already left, so the second branch can never run.  The same for
// `if C {} else if C {}` and for two cases of a tagless switch.
func checkDuplicateGuards(c *Ctx, r *Rec, rule string, fds []*ast.FuncDecl) {
	chains, bad := 0, 0
	for _, fd := range fds {
		info := c.infoFor(fd)
		if info == nil || fd.Body == nil || hasGoto(fd.Body) {
			continue
		}
		report := func(first, second ast.Expr, how string) {
			bad++
			r.fail(rule, fmt.Sprintf("%s/guard %s", c.fdName(fd), exprStr(second)), c.pos(second.Pos()),
				fmt.Sprintf("the condition %s at %s repeats the condition at %s, %s: the branch it guards can never run (what it was written for falls through to the code behind it)", exprStr(second), c.pos(second.Pos()), c.pos(first.Pos()), how))
		}
		for _, list := range stmtLists(fd.Body) {
			for i, s := range list {
				is, ok := s.(*ast.IfStmt)
				if !ok || is.Init != nil {
					continue
				}
				vars, pure := localOnly(info, is.Cond)
				if !pure || len(vars) == 0 {
					continue
				}
				// else-if chain
				seenConds := []ast.Expr{is.Cond}
				for e := is.Else; e != nil; {
					ei, ok := e.(*ast.IfStmt)
					if !ok || ei.Init != nil {
						break
					}
					chains++
					for _, prev := range seenConds {
						if exprStr(prev) == exprStr(ei.Cond) {
							if _, p := localOnly(info, ei.Cond); p {
								report(prev, ei.Cond, "which is tested first in the same chain")
							}
						}
					}
					seenConds = append(seenConds, ei.Cond)
					e = ei.Else
				}
				if is.Else != nil || !terminates(info, is.Body) {
					continue
				}
				chains++
				for j := i + 1; j < len(list); j++ {
					if js, ok := list[j].(*ast.IfStmt); ok && js.Init == nil && exprStr(js.Cond) == exprStr(is.Cond) {
						// a branch that only panics is an assertion ("this cannot happen"): that it
						// cannot run is what it says
						onlyPanics := len(js.Body.List) > 0
						for _, bs := range js.Body.List {
							es, isExpr := bs.(*ast.ExprStmt)
							if !isExpr {
								onlyPanics = false
								continue
							}
							if call, isCall := es.X.(*ast.CallExpr); !isCall || !noReturnCall(info, call) {
								onlyPanics = false
							}
						}
						if !onlyPanics {
							report(is.Cond, js.Cond, "whose branch always leaves the function")
						}
						break
					}
					if writesAny(info, list[j], vars) {
						break
					}
				}
			}
		}
		ast.Inspect(fd.Body, func(x ast.Node) bool {
			sw, ok := x.(*ast.SwitchStmt)
			if !ok || sw.Tag != nil || sw.Init != nil {
				return true
			}
			chains++
			var seen []ast.Expr
			for _, cl := range sw.Body.List {
				for _, e := range cl.(*ast.CaseClause).List {
					if _, p := localOnly(info, e); !p {
						continue
					}
					for _, prev := range seen {
						if exprStr(prev) == exprStr(e) {
							report(prev, e, "which is an earlier case of the same switch")
						}
					}
					seen = append(seen, e)
				}
			}
			return true
		})
	}
	if bad == 0 {
		r.ok(rule, "guards", "", fmt.Sprintf("%d guard clauses and chains; none repeats the condition of an earlier one that has already left", chains))
	}
}

// ---------------------------------------------------------------- a loop that is never entered

// loopNeverEntered: `for b { ... }` (or `for !b`) where the last thing that happened to the local
// flag b before the loop, in the same statement list, is its declaration or assignment with the
// constant that makes the condition false.  Returns the flag and the statement that set it, or nil.
func loopNeverEntered(info *types.Info, body ast.Node, loop *ast.ForStmt) (*types.Var, ast.Stmt) {
	if loop.Init != nil || loop.Cond == nil || hasGoto(body) {
		return nil, nil
	}
	cond := ast.Unparen(loop.Cond)
	want := true // the value of the flag for which the loop is entered
	if u, ok := cond.(*ast.UnaryExpr); ok && u.Op == token.NOT {
		cond = ast.Unparen(u.X)
		want = false
	}
	flag, ok := identObj(info, cond).(*types.Var)
	if !ok || flag.IsField() {
		return nil, nil
	}
	for _, list := range stmtLists(body) {
		at := -1
		for i, s := range list {
			if s == ast.Stmt(loop) {
				at = i
			}
		}
		if at < 0 {
			continue
		}
		for j := at - 1; j >= 0; j-- {
			s := list[j]
			if !mentionsObj(info, s, flag) {
				continue
			}
			val, known := false, false
			constOf := func(e ast.Expr) {
				if tv, ok := info.Types[e]; ok && tv.Value != nil {
					known = true
					val = tv.Value.ExactString() == "true"
				}
			}
			switch d := s.(type) {
			case *ast.DeclStmt:
				if gd, ok := d.Decl.(*ast.GenDecl); ok && gd.Tok == token.VAR && len(gd.Specs) == 1 {
					vs := gd.Specs[0].(*ast.ValueSpec)
					if len(vs.Names) == 1 && info.Defs[vs.Names[0]] == types.Object(flag) {
						if len(vs.Values) == 0 {
							known, val = true, false
						} else if len(vs.Values) == 1 {
							constOf(vs.Values[0])
						}
					}
				}
			case *ast.AssignStmt:
				if len(d.Lhs) == 1 && len(d.Rhs) == 1 && identObj(info, d.Lhs[0]) == types.Object(flag) && (d.Tok == token.DEFINE || d.Tok == token.ASSIGN) {
					constOf(d.Rhs[0])
				}
			}
			if known && val != want {
				return flag, s
			}
			return nil, nil
		}
	}
	return nil, nil
}

// checkLoopsAreEntered applies loopNeverEntered to the loops selected by want.
func checkLoopsAreEntered(c *Ctx, r *Rec, rule string, fds []*ast.FuncDecl, what string, want func(info *types.Info, l *ast.ForStmt) bool) {
	loops, bad := 0, 0
	for _, fd := range fds {
		info := c.infoFor(fd)
		if info == nil || fd.Body == nil {
			continue
		}
		for _, l := range loopsIn(fd.Body) {
			fs, ok := l.(*ast.ForStmt)
			if !ok || (want != nil && !want(info, fs)) {
				continue
			}
			loops++
			if flag, set := loopNeverEntered(info, fd.Body, fs); flag != nil {
				bad++
				r.fail(rule, fmt.Sprintf("%s/loop-entered", c.fdName(fd)), c.pos(fs.Pos()),
					fmt.Sprintf("the condition %s of the loop at %s is false the first time it is evaluated (%s is set at %s and not touched before the loop): the body never runs and %s", exprStr(fs.Cond), c.pos(fs.Pos()), flag.Name(), c.pos(set.Pos()), what))
			}
		}
	}
	if bad == 0 {
		r.ok(rule, "loops-entered", "", fmt.Sprintf("%d loops; none is governed by a flag that is false when the loop is reached", loops))
	}
}

// readsQueueHead: the loop body calls RemoveHead.
func readsQueueHead(info *types.Info, l *ast.ForStmt) bool {
	reads := false
	inspectNoLit(l, func(x ast.Node) bool {
		if _, mname, _, ok := methodCall(x); ok && mname == "RemoveHead" {
			reads = true
		}
		return true
	})
	return reads
}

// ---------------------------------------------------------------- what was computed from the operands is exchanged with them

// checkSwapKeepsDerived: `a, b = b, a` on two locals for which two other locals were computed
// before by the same expression (da := f(a), db := f(b)): the block that exchanges the operands
// also exchanges (or recomputes) the derived pair, or no later expression reads one of the pair
// without the other.
func checkSwapKeepsDerived(c *Ctx, r *Rec, rule string, fds []*ast.FuncDecl) {
	swaps, bad := 0, 0
	for _, fd := range fds {
		info := c.infoFor(fd)
		if info == nil || fd.Body == nil {
			continue
		}
		type def struct {
			obj  types.Object
			expr ast.Expr
			pos  token.Pos
		}
		var defs []def
		ndefs := map[types.Object]int{}
		ast.Inspect(fd.Body, func(x ast.Node) bool {
			switch s := x.(type) {
			case *ast.ValueSpec:
				if len(s.Names) == len(s.Values) {
					for i, nm := range s.Names {
						if o := info.Defs[nm]; o != nil {
							defs = append(defs, def{o, s.Values[i], s.Pos()})
							ndefs[o]++
						}
					}
				}
			case *ast.AssignStmt:
				for i, l := range s.Lhs {
					if o := identObj(info, l); o != nil {
						ndefs[o]++
						if s.Tok == token.DEFINE && len(s.Lhs) == len(s.Rhs) && info.Defs[l.(*ast.Ident)] != nil {
							defs = append(defs, def{o, s.Rhs[i], s.Pos()})
						}
					}
				}
			case *ast.IncDecStmt:
				if o := identObj(info, s.X); o != nil {
					ndefs[o]++
				}
			}
			return true
		})
		for _, list := range stmtLists(fd.Body) {
			for _, s := range list {
				as, ok := s.(*ast.AssignStmt)
				if !ok || as.Tok != token.ASSIGN || len(as.Lhs) != 2 || len(as.Rhs) != 2 {
					continue
				}
				a, b := identObj(info, as.Lhs[0]), identObj(info, as.Lhs[1])
				if a == nil || b == nil || a == b || identObj(info, as.Rhs[0]) != b || identObj(info, as.Rhs[1]) != a {
					continue
				}
				swaps++
				ra := regexp.MustCompile(`(^|[^.\w])` + regexp.QuoteMeta(a.Name()) + `\b`)
				rb := regexp.MustCompile(`(^|[^.\w])` + regexp.QuoteMeta(b.Name()) + `\b`)
				for _, da := range defs {
					if da.pos >= as.Pos() || ndefs[da.obj] != 1 || !mentionsObj(info, da.expr, a) || mentionsObj(info, da.expr, b) {
						continue
					}
					for _, db := range defs {
						if db.pos >= as.Pos() || ndefs[db.obj] != 1 || db.obj == da.obj || !mentionsObj(info, db.expr, b) || mentionsObj(info, db.expr, a) {
							continue
						}
						if ra.ReplaceAllString(exprStr(da.expr), "$1\x00") != rb.ReplaceAllString(exprStr(db.expr), "$1\x00") {
							continue
						}
						// the pair (da, db) was computed from (a, b); ndefs == 1 says neither is ever
						// assigned again, so after the exchange they describe the wrong operand
						var lone *ast.Ident
						ast.Inspect(fd.Body, func(x ast.Node) bool {
							if lone != nil {
								return false
							}
							e, ok := x.(ast.Expr)
							if !ok || e.Pos() < as.End() {
								return true
							}
							// the outermost expression at this place
							hasA, hasB := mentionsObj(info, e, da.obj), mentionsObj(info, e, db.obj)
							if hasA != hasB {
								ast.Inspect(e, func(y ast.Node) bool {
									if id, ok := y.(*ast.Ident); ok && lone == nil && (info.Uses[id] == da.obj || info.Uses[id] == db.obj) {
										lone = id
									}
									return true
								})
							}
							return false
						})
						if lone != nil {
							bad++
							r.fail(rule, fmt.Sprintf("%s/exchange %s,%s", c.fdName(fd), a.Name(), b.Name()), c.pos(as.Pos()),
								fmt.Sprintf("%s and %s are exchanged at %s, but %s and %s, which were computed from them before (%s, %s), are not: %s at %s still describes the operand that is now called %s", a.Name(), b.Name(), c.pos(as.Pos()), da.obj.Name(), db.obj.Name(), exprStr(da.expr), exprStr(db.expr), lone.Name, c.pos(lone.Pos()), map[bool]string{true: b.Name(), false: a.Name()}[info.Uses[lone] == da.obj]))
						}
					}
				}
			}
		}
	}
	if bad == 0 {
		r.ok(rule, "exchanges", "", fmt.Sprintf("%d exchanges of two local operands; what was computed from the operands before is exchanged with them, recomputed, or only read as a pair", swaps))
	}
}

// ---------------------------------------------------------------- the capacity of an argument is not its size

// checkCapacityIsNotSize: cap(p) of a slice parameter used as the number of values of p: as the
// length of a copy made for it, as a stored size, or as the bound of a loop over it.  The values
// of a Go array are its first len(p) elements; what lies between len and cap belongs to whoever
// owns the backing array.
func checkCapacityIsNotSize(c *Ctx, r *Rec, rule string, fds []*ast.FuncDecl) {
	sites, bad := 0, 0
	for _, fd := range fds {
		info := c.infoFor(fd)
		if info == nil || fd.Body == nil {
			continue
		}
		params := map[types.Object]bool{}
		for _, p := range paramObjs(info, fd) {
			if _, ok := p.Type().Underlying().(*types.Slice); ok {
				params[p] = true
			}
		}
		if len(params) == 0 {
			continue
		}
		isCapOfParam := func(e ast.Expr) (types.Object, bool) {
			call, ok := ast.Unparen(e).(*ast.CallExpr)
			if !ok || !isBuiltinCall(info, call, "cap") || len(call.Args) != 1 {
				return nil, false
			}
			o := identObj(info, call.Args[0])
			return o, o != nil && params[o]
		}
		// locals that hold cap(p)
		holds := map[types.Object]types.Object{}
		ast.Inspect(fd.Body, func(x ast.Node) bool {
			lhs, rhs, ok := multiDef(x)
			if ok && len(lhs) == 1 {
				if p, ok := isCapOfParam(rhs); ok {
					if o := identObj(info, lhs[0]); o != nil {
						holds[o] = p
					}
				}
			}
			return true
		})
		capOf := func(e ast.Expr) (types.Object, bool) {
			e = ast.Unparen(e)
			if conv, ok := e.(*ast.CallExpr); ok && len(conv.Args) == 1 && info.Types[conv.Fun].IsType() {
				e = ast.Unparen(conv.Args[0])
			}
			if p, ok := isCapOfParam(e); ok {
				return p, true
			}
			if o := identObj(info, e); o != nil && holds[o] != nil {
				return holds[o], true
			}
			return nil, false
		}
		reported := map[types.Object]bool{}
		report := func(at ast.Node, p types.Object, how string) {
			bad++
			if reported[p] {
				return
			}
			reported[p] = true
			r.fail(rule, fmt.Sprintf("%s/cap(%s)", c.fdName(fd), p.Name()), c.pos(at.Pos()),
				fmt.Sprintf("the capacity of the argument %s is used as %s at %s: for a Go array with spare capacity (a slice of a longer array, the result of append) the elements behind its length are counted as values of the argument", p.Name(), how, c.pos(at.Pos())))
		}
		ast.Inspect(fd.Body, func(x ast.Node) bool {
			switch s := x.(type) {
			case *ast.CallExpr:
				if _, ok := isCapOfParam(s); ok {
					sites++
				}
				if isBuiltinCall(info, s, "make") && len(s.Args) >= 2 {
					if p, ok := capOf(s.Args[1]); ok {
						report(s, p, "the length of a new Go array")
					}
				}
			case *ast.KeyValueExpr:
				if p, ok := capOf(s.Value); ok {
					report(s, p, "a stored size")
				}
			case *ast.AssignStmt:
				if len(s.Lhs) == len(s.Rhs) {
					for i, l := range s.Lhs {
						if _, isSel := ast.Unparen(l).(*ast.SelectorExpr); isSel {
							if p, ok := capOf(s.Rhs[i]); ok {
								report(s, p, "a stored size")
							}
						}
					}
				}
			case *ast.ForStmt:
				if be, ok := ast.Unparen(s.Cond).(*ast.BinaryExpr); ok && s.Cond != nil && (be.Op == token.LSS || be.Op == token.LEQ) {
					if p, ok := capOf(be.Y); ok {
						report(s, p, "the bound of a loop")
					}
				}
			}
			return true
		})
	}
	if bad == 0 {
		r.ok(rule, "capacities", "", fmt.Sprintf("%d uses of cap() of a Go array argument; none is taken for the number of its values", sites))
	}
}

// ---------------------------------------------------------------- a zero-based loop that starts at one

// checkLoopCoversFirst: `for i := 1; i < n; i++` where n is the number of members of X
// (X.NumMethod(), X.NumField(), X.Len(), len(X), ...) and the body reaches the members with the
// bare index i through the matching zero-based accessor: member 0 is never visited.  Not when the
// body also uses i-1 (adjacent pairs) or the function reaches member 0 by itself.
func checkLoopCoversFirst(c *Ctx, r *Rec, rule string, fds []*ast.FuncDecl) {
	accessor := map[string]string{"NumMethod": "Method", "NumField": "Field", "NumIn": "In", "NumOut": "Out", "Len": "Index"}
	loops, bad := 0, 0
	for _, fd := range fds {
		info := c.infoFor(fd)
		if info == nil || fd.Body == nil {
			continue
		}
		for _, l := range loopsIn(fd.Body) {
			fs, ok := l.(*ast.ForStmt)
			if !ok || fs.Init == nil || fs.Cond == nil || fs.Post == nil {
				continue
			}
			as, ok := fs.Init.(*ast.AssignStmt)
			if !ok || len(as.Lhs) != 1 || len(as.Rhs) != 1 {
				continue
			}
			iv := identObj(info, as.Lhs[0])
			be, ok2 := ast.Unparen(fs.Cond).(*ast.BinaryExpr)
			inc, ok3 := fs.Post.(*ast.IncDecStmt)
			if iv == nil || !ok2 || !ok3 || inc.Tok != token.INC || identObj(info, inc.X) != iv || be.Op != token.LSS || identObj(info, be.X) != iv {
				continue
			}
			// the bound: a count of members
			bound := ast.Unparen(be.Y)
			if id, ok := bound.(*ast.Ident); ok {
				if init := initOf(info, fd, id); init != nil {
					bound = ast.Unparen(init)
				}
			}
			call, ok := bound.(*ast.CallExpr)
			if !ok {
				continue
			}
			acc, indexed := "", false
			if isBuiltinCall(info, call, "len") && len(call.Args) == 1 {
				indexed = true
			} else if _, mname, _, ok := methodCall(call); ok && accessor[mname] != "" && len(call.Args) == 0 {
				acc = accessor[mname]
			} else {
				continue
			}
			loops++
			tv, isConst := info.Types[as.Rhs[0]]
			if !isConst || tv.Value == nil || tv.Value.ExactString() != "1" {
				continue
			}
			// the body reaches members with the bare index
			bare, shifted := ast.Node(nil), false
			ast.Inspect(fs.Body, func(x ast.Node) bool {
				switch s := x.(type) {
				case *ast.BinaryExpr:
					if s.Op == token.SUB && identObj(info, s.X) == iv {
						shifted = true
					}
				case *ast.IndexExpr:
					if indexed && identObj(info, s.Index) == iv && exprStr(s.X) == exprStr(call.Args[0]) {
						bare = s
					}
				case *ast.CallExpr:
					if _, mname, _, ok := methodCall(s); ok && acc != "" && mname == acc && len(s.Args) == 1 && identObj(info, s.Args[0]) == iv {
						bare = s
					}
				}
				return true
			})
			if bare == nil || shifted {
				continue
			}
			// member 0 reached elsewhere in the function?  Any use of the accessor, any index or
			// slice of the operand outside the loop may be what handles the first member.
			zero := false
			ast.Inspect(fd.Body, func(x ast.Node) bool {
				if x == ast.Node(fs) {
					return false
				}
				switch s := x.(type) {
				case *ast.IndexExpr:
					if indexed && exprStr(s.X) == exprStr(call.Args[0]) {
						zero = true
					}
				case *ast.SliceExpr:
					if indexed && exprStr(s.X) == exprStr(call.Args[0]) {
						zero = true
					}
				case *ast.RangeStmt:
					if indexed && exprStr(s.X) == exprStr(call.Args[0]) {
						zero = true
					}
				case *ast.CallExpr:
					if _, mname, _, ok := methodCall(s); ok && acc != "" && mname == acc {
						zero = true
					}
				}
				return true
			})
			if zero {
				continue
			}
			bad++
			r.fail(rule, fmt.Sprintf("%s/members", c.fdName(fd)), c.pos(fs.Pos()),
				fmt.Sprintf("the loop at %s runs its index from 1 to %s-1 and reaches the members with the bare index (%s at %s), which counts from 0: the first member is never visited", c.pos(fs.Pos()), exprStr(be.Y), exprStr(bare.(ast.Expr)), c.pos(bare.Pos())))
		}
	}
	if bad == 0 {
		r.ok(rule, "member-loops", "", fmt.Sprintf("%d counting loops over the members of a value; none starts behind the first member", loops))
	}
}

// ---------------------------------------------------------------- a result that is overwritten before it is read

// checkNotOverwrittenUnread: `x := f(...)` followed, in the same statement list and with nothing
// that mentions x in between, by `x = E` where E does not mention x: what f returned is lost.
// (The slip of `=` for `+=`.)
func checkNotOverwrittenUnread(c *Ctx, r *Rec, rule string, fds []*ast.FuncDecl) {
	sites, bad := 0, 0
	for _, fd := range fds {
		info := c.infoFor(fd)
		if info == nil || fd.Body == nil || hasGoto(fd.Body) {
			continue
		}
		for _, list := range stmtLists(fd.Body) {
			for i, s := range list {
				var defined []types.Object
				var rhs []ast.Expr
				switch d := s.(type) {
				case *ast.DeclStmt:
					if gd, ok := d.Decl.(*ast.GenDecl); ok && gd.Tok == token.VAR {
						for _, sp := range gd.Specs {
							vs := sp.(*ast.ValueSpec)
							if len(vs.Values) == 0 {
								continue
							}
							for _, nm := range vs.Names {
								if o := info.Defs[nm]; o != nil {
									defined = append(defined, o)
								}
							}
							rhs = append(rhs, vs.Values...)
						}
					}
				case *ast.AssignStmt:
					if d.Tok == token.DEFINE {
						for _, l := range d.Lhs {
							if id, ok := l.(*ast.Ident); ok && info.Defs[id] != nil {
								defined = append(defined, info.Defs[id])
							}
						}
						rhs = d.Rhs
					}
				}
				if len(defined) == 0 {
					continue
				}
				calls := false
				for _, e := range rhs {
					ast.Inspect(e, func(x ast.Node) bool {
						if call, ok := x.(*ast.CallExpr); ok && !info.Types[call.Fun].IsType() {
							if _, isB := info.Uses[calleeIdent(call)].(*types.Builtin); !isB {
								calls = true
							}
						}
						return true
					})
				}
				if !calls {
					continue
				}
				for _, x := range defined {
					sites++
					for j := i + 1; j < len(list); j++ {
						if !mentionsObj(info, list[j], x) {
							continue
						}
						as, ok := list[j].(*ast.AssignStmt)
						if !ok || as.Tok != token.ASSIGN {
							break
						}
						over := false
						for _, l := range as.Lhs {
							if identObj(info, l) == x {
								over = true
							}
						}
						for _, l := range as.Lhs {
							if identObj(info, l) != x && mentionsObj(info, l, x) {
								over = false
							}
						}
						for _, e := range as.Rhs {
							if mentionsObj(info, e, x) {
								over = false
							}
						}
						if over {
							bad++
							r.fail(rule, fmt.Sprintf("%s/%s", c.fdName(fd), x.Name()), c.pos(as.Pos()),
								fmt.Sprintf("%s is given the result of %s at %s and is overwritten at %s before anything reads it: what the call produced is lost (an assignment where an extension `+=` was meant)", x.Name(), exprStr(rhs[0]), c.pos(s.Pos()), c.pos(as.Pos())))
						}
						break
					}
				}
			}
		}
	}
	if bad == 0 {
		r.ok(rule, "results-read", "", fmt.Sprintf("%d locals that receive the result of a call; none is overwritten before it is read", sites))
	}
}

func calleeIdent(call *ast.CallExpr) *ast.Ident {
	switch f := ast.Unparen(call.Fun).(type) {
	case *ast.Ident:
		return f
	case *ast.SelectorExpr:
		return f.Sel
	case *ast.IndexExpr:
		if id, ok := ast.Unparen(f.X).(*ast.Ident); ok {
			return id
		}
	}
	return &ast.Ident{}
}

// ---------------------------------------------------------------- a table of names names each constant after itself

// checkNameTables: a map literal from the constants of an enumerated type to strings in which
// (nearly) every string is contained in the name of its own key (EOLToken: "EOL") is a table of
// names.  An entry whose string is the name of ANOTHER key of the table - or two entries with the
// same string - make two constants print alike.
func checkNameTables(c *Ctx, r *Rec, rule, role string) {
	info := c.info(role)
	p := c.Pkgs[role]
	if info == nil || p == nil {
		return
	}
	norm := func(s string) string {
		var b []rune
		for _, ch := range s {
			switch {
			case ch >= 'a' && ch <= 'z', ch >= '0' && ch <= '9':
				b = append(b, ch)
			case ch >= 'A' && ch <= 'Z':
				b = append(b, ch+'a'-'A')
			}
		}
		return string(b)
	}
	tables, bad := 0, 0
	for _, f := range p.Syntax {
		ast.Inspect(f, func(x ast.Node) bool {
			cl, ok := x.(*ast.CompositeLit)
			if !ok {
				return true
			}
			t := info.TypeOf(cl)
			if t == nil {
				return true
			}
			var keyT, valT types.Type
			switch u := t.Underlying().(type) {
			case *types.Map:
				keyT, valT = u.Key(), u.Elem()
			case *types.Array:
				valT = u.Elem()
			case *types.Slice:
				valT = u.Elem()
			default:
				return true
			}
			if b, ok := valT.Underlying().(*types.Basic); !ok || b.Info()&types.IsString == 0 {
				return true
			}
			type entry struct {
				key  *types.Const
				val  string
				node ast.Node
			}
			var entries []entry
			for _, el := range cl.Elts {
				kv, ok := el.(*ast.KeyValueExpr)
				if !ok {
					return true
				}
				kc, ok := identObj(info, kv.Key).(*types.Const)
				if !ok {
					return true
				}
				if _, isNamed := kc.Type().(*types.Named); !isNamed || (keyT != nil && !types.Identical(kc.Type(), keyT)) {
					return true
				}
				tv := info.Types[kv.Value]
				if tv.Value == nil {
					return true
				}
				entries = append(entries, entry{kc, strings.Trim(tv.Value.ExactString(), "\""), kv})
			}
			if len(entries) < 3 {
				return true
			}
			own := 0
			for _, e := range entries {
				if n := norm(e.val); n != "" && strings.Contains(norm(e.key.Name()), n) {
					own++
				}
			}
			if own*5 < len(entries)*4 {
				return true // not a table of names
			}
			tables++
			for i, e := range entries {
				n := norm(e.val)
				if n == "" || strings.Contains(norm(e.key.Name()), n) {
					continue
				}
				for j, o := range entries {
					if i != j && (norm(o.val) == n) {
						bad++
						r.fail(rule, fmt.Sprintf("%s/%s", role, e.key.Name()), c.pos(e.node.Pos()),
							fmt.Sprintf("the table of names at %s gives %s the name %q, which is the name of %s: the two print alike, and whatever is reported about a %s reads as if it were about a %s", c.pos(cl.Pos()), e.key.Name(), e.val, o.key.Name(), e.key.Name(), o.key.Name()))
						break
					}
				}
			}
			return true
		})
	}
	if bad == 0 {
		r.ok(rule, role+"/name-tables", "", fmt.Sprintf("%d tables of names; no constant carries the name of another one", tables))
	}
}

// ---------------------------------------------------------------- a value that is computed and assigned but never read

// checkStoresAreRead: `x = E` (a plain assignment of something that is not a constant to a local
// variable that no closure mentions and whose address is never taken) from which no path leads
// to a read of x: the value that was just computed is not the one that is handed on (a sibling
// identifier is used in its place further down).
func checkStoresAreRead(c *Ctx, r *Rec, rule string, fds []*ast.FuncDecl) {
	stores, bad := 0, 0
	for _, fd := range fds {
		info := c.infoFor(fd)
		if info == nil || fd.Body == nil || hasGoto(fd.Body) {
			continue
		}
		// variables that are out of reach of a flow argument
		excluded := map[types.Object]bool{}
		if fd.Type.Results != nil {
			for _, f := range fd.Type.Results.List {
				for _, nm := range f.Names {
					excluded[info.Defs[nm]] = true
				}
			}
		}
		ast.Inspect(fd.Body, func(x ast.Node) bool {
			switch s := x.(type) {
			case *ast.FuncLit:
				ast.Inspect(s, func(y ast.Node) bool {
					if id, ok := y.(*ast.Ident); ok {
						if o := info.Uses[id]; o != nil {
							excluded[o] = true
						}
					}
					return true
				})
			case *ast.UnaryExpr:
				if s.Op == token.AND {
					if o := identObj(info, s.X); o != nil {
						excluded[o] = true
					}
				}
			}
			return true
		})
		var g *FG
		reportedVar := map[*types.Var]bool{}
		inspectNoLit(fd.Body, func(x ast.Node) bool {
			as, ok := x.(*ast.AssignStmt)
			if !ok || as.Tok != token.ASSIGN || len(as.Lhs) != len(as.Rhs) {
				return true
			}
			for i, l := range as.Lhs {
				v, ok := identObj(info, l).(*types.Var)
				if !ok || excluded[v] || v.IsField() || v.Pkg() == nil || v.Parent() == v.Pkg().Scope() {
					continue
				}
				if tv, ok := info.Types[as.Rhs[i]]; ok && tv.IsNil() {
					continue
				}
				if tv, ok := info.Types[as.Rhs[i]]; ok && tv.Value != nil && !isStringType(tv.Type) {
					continue // numbers and truth values are set for tidiness; a text is an answer
				}
				if _, isLit := ast.Unparen(as.Rhs[i]).(*ast.CompositeLit); isLit {
					continue
				}
				if _, isId := ast.Unparen(as.Rhs[i]).(*ast.Ident); isId && len(as.Lhs) > 1 {
					continue // one half of an exchange (a, b = b, a): nothing is computed
				}
				stores++
				if g == nil {
					g = newFG(info, fd.Body)
				}
				pt, ok := g.after(as)
				if !ok {
					continue
				}
				reads := func(n ast.Node) bool {
					if a, ok := n.(*ast.AssignStmt); ok && (a.Tok == token.ASSIGN || a.Tok == token.DEFINE) {
						for _, e := range a.Rhs {
							if mentionsObj(info, e, v) {
								return true
							}
						}
						for _, e := range a.Lhs {
							if identObj(info, e) != types.Object(v) && mentionsObj(info, e, v) {
								return true
							}
						}
						return false
					}
					return mentionsObj(info, n, v)
				}
				writes := func(n ast.Node) bool {
					if a, ok := n.(*ast.AssignStmt); ok && a.Tok == token.ASSIGN {
						for _, e := range a.Lhs {
							if identObj(info, e) == types.Object(v) {
								return true
							}
						}
					}
					return false
				}
				if found, _ := g.exists(pathQuery{from: pt, goalNode: reads, stop: writes}); !found {
					bad++
					if reportedVar[v] {
						continue
					}
					reportedVar[v] = true
					r.fail(rule, fmt.Sprintf("%s/%s", c.fdName(fd), v.Name()), c.pos(as.Pos()),
						fmt.Sprintf("%s is assigned %s at %s and no path from there reads it: the value that was just computed is not the one that is used further down", v.Name(), exprStr(as.Rhs[i]), c.pos(as.Pos())))
				}
			}
			return true
		})
	}
	if bad == 0 {
		r.ok(rule, "stores-read", "", fmt.Sprintf("%d assignments of computed values to locals; each can reach a read of the variable", stores))
	}
}

// ---------------------------------------------------------------- the default stands in only for a request that cannot be honoured

// checkDefaultOnlyForZero: `if p OP K { p = E }` in a constructor, where p is an integer
// parameter, K a constant and E does not mention p (a replacement, not a clamp): the condition
// admits only p <= 0.  A condition that also admits 1 replaces a request the client made.
func checkDefaultOnlyForZero(c *Ctx, r *Rec, rule string, fds []*ast.FuncDecl) {
	sites := 0
	for _, fd := range fds {
		info := c.infoFor(fd)
		if info == nil || fd.Body == nil {
			continue
		}
		params := map[types.Object]bool{}
		for _, p := range paramObjs(info, fd) {
			if isIntegerType(p.Type()) {
				params[p] = true
			}
		}
		inspectNoLit(fd.Body, func(x ast.Node) bool {
			is, ok := x.(*ast.IfStmt)
			if !ok || is.Init != nil || is.Else != nil || len(is.Body.List) != 1 {
				return true
			}
			as, ok := is.Body.List[0].(*ast.AssignStmt)
			if !ok || as.Tok != token.ASSIGN || len(as.Lhs) != 1 || len(as.Rhs) != 1 {
				return true
			}
			p := identObj(info, as.Lhs[0])
			if p == nil || !params[p] || mentionsObj(info, as.Rhs[0], p) {
				return true
			}
			if tv := info.Types[as.Rhs[0]]; tv.Value != nil {
				return true // a clamp to a constant bound is not a default
			}
			be, ok := ast.Unparen(is.Cond).(*ast.BinaryExpr)
			if !ok {
				return true
			}
			op, kx := be.Op, be.Y
			if identObj(info, be.X) != p {
				if identObj(info, be.Y) != p {
					return true
				}
				kx = be.X
				op = map[token.Token]token.Token{token.LSS: token.GTR, token.LEQ: token.GEQ, token.GTR: token.LSS, token.GEQ: token.LEQ, token.EQL: token.EQL}[op]
			}
			kv, ok := constIntExpr(info, kx)
			if !ok {
				return true
			}
			var max int64
			switch op {
			case token.LSS:
				max = kv - 1
			case token.LEQ, token.EQL:
				max = kv
			default:
				return true
			}
			sites++
			construct := fmt.Sprintf("%s/default-for %s", c.fdName(fd), p.Name())
			if max >= 1 {
				r.fail(rule, construct, c.pos(is.Pos()), fmt.Sprintf("the condition %s at %s replaces %s by %s for every request up to %d: a client that asks for %d gets something else than it asked for, silently", exprStr(is.Cond), c.pos(is.Pos()), p.Name(), exprStr(as.Rhs[0]), max, max))
			} else {
				r.ok(rule, construct, c.pos(is.Pos()), fmt.Sprintf("%s stands in only for a request of zero", exprStr(as.Rhs[0])))
			}
			return true
		})
	}
	r.count("defaults that stand in for a request", sites)
}

// ---------------------------------------------------------------- a test whose outcome changes nothing

// checkTestsDecide: `if c { continue }` as the last statement of a round of a loop: whatever the
// test says, the next round follows.  (The slip of `continue` for `break`.)  An `if` with an
// empty body is not reported: it is what is left when a debugging aid is taken out.
func checkTestsDecide(c *Ctx, r *Rec, rule string, fds []*ast.FuncDecl) {
	tests, bad := 0, 0
	for _, fd := range fds {
		info := c.infoFor(fd)
		if info == nil || fd.Body == nil {
			continue
		}
		for _, is := range c.NoopGuards {
			if containsNode(fd.Body, is) {
				bad++
				r.fail(rule, fmt.Sprintf("%s/test %s", c.fdName(fd), exprStr(is.Cond)), c.pos(is.Pos()),
					fmt.Sprintf("`if %s { continue }` at %s is the last statement of its round: the loop goes on to the next round whatever the test says (a `break` was meant, or the statements the test was to skip are gone)", exprStr(is.Cond), c.pos(is.Pos())))
			}
		}
		inspectNoLit(fd.Body, func(x ast.Node) bool {
			if _, ok := x.(*ast.IfStmt); ok {
				tests++
			}
			return true
		})
	}
	if bad == 0 {
		r.ok(rule, "tests-decide", "", fmt.Sprintf("%d tests; each of them guards something", tests))
	}
}

// ---------------------------------------------------------------- the bundle

// shapeLints applies the rules of this file that need no binding to the functions of the files a
// property is anchored in.
func shapeLints(c *Ctx, r *Rec, fds []*ast.FuncDecl) {
	seen := map[*ast.FuncDecl]bool{}
	var uniq []*ast.FuncDecl
	for _, fd := range fds {
		if fd != nil && !seen[fd] {
			seen[fd] = true
			uniq = append(uniq, fd)
		}
	}
	fds = uniq
	checkDuplicateGuards(c, r, "G1-no-repeated-guard", fds)
	checkLoopsAreEntered(c, r, "G2-loops-entered", fds, "what the loop was written to do does not happen", nil)
	checkNotOverwrittenUnread(c, r, "G3-result-not-overwritten-unread", fds)
	checkStoresAreRead(c, r, "G4-computed-values-are-used", fds)
	checkTestsDecide(c, r, "G5-tests-decide", fds)
	checkCapacityIsNotSize(c, r, "G6-capacity-is-not-size", fds)
	checkSwapKeepsDerived(c, r, "G7-exchange-keeps-derived", fds)
	checkLoopCoversFirst(c, r, "G8-member-loops-cover-the-first", fds)
	checkSiblingCallsAgree(c, r, "G9-sibling-calls-agree", fds)
	checkFirstRoundAsked(c, r, "G10-first-round-asked", fds)
	checkBreaksLeaveSomething(c, r, "G11-breaks-leave-something", fds)
	checkValuesNotAskedDefined(c, r, "G12-values-not-asked-whether-defined", fds)
	checkRecoverPassesOn(c, r, "G13-recover-passes-on", fds)
	checkFoundAtZero(c, r, "G14-position-zero-is-a-hit", fds)
	checkCountersBalanced(c, r, "G15-counters-balanced", fds)
	r.count("functions read by the shape rules", len(fds))
}

// moduleFuncsReturning: the functions of the module package whose results mention one of the
// named interfaces of the collection package (the universal constructor of that collection).
func moduleFuncsReturning(c *Ctx, ifaces ...string) []*ast.FuncDecl {
	var out []*ast.FuncDecl
	for _, fd := range c.allFuncDecls("module") {
		fn := c.funcOf(fd)
		if fn == nil {
			continue
		}
		res := fn.Type().(*types.Signature).Results()
		hit := false
		for i := 0; i < res.Len(); i++ {
			ts := res.At(i).Type().String()
			for _, nm := range ifaces {
				if strings.Contains(ts, "."+nm+"[") || strings.HasSuffix(ts, "."+nm) {
					hit = true
				}
			}
		}
		if hit {
			out = append(out, fd)
		}
	}
	return out
}

// ---------------------------------------------------------------- an arm that is selected by one name answers with that name

// checkArmsAnswerTheirOwnName: a tagless switch in which every arm tests for one kind of thing
// (a string literal or a named type in the case expression) and answers with a string constant
// (`x = "Stack"` or `return "Stack"`).  When the test of an arm names one of the answers of the
// switch ("*collection.stack_" names "Stack") the arm gives that answer, not the one of its
// neighbour.  The same for a map literal from strings to strings.
func checkArmsAnswerTheirOwnName(c *Ctx, r *Rec, rule string, fds []*ast.FuncDecl) {
	norm := func(s string) string {
		var b []rune
		for _, ch := range s {
			switch {
			case ch >= 'a' && ch <= 'z', ch >= '0' && ch <= '9':
				b = append(b, ch)
			case ch >= 'A' && ch <= 'Z':
				b = append(b, ch+'a'-'A')
			}
		}
		return string(b)
	}
	type arm struct {
		tokens []string
		answer string
		at     ast.Node
	}
	switches, bad := 0, 0
	judge := func(fd *ast.FuncDecl, arms []arm) {
		if len(arms) < 3 {
			return
		}
		switches++
		answers := map[string]bool{}
		for _, a := range arms {
			if n := norm(a.answer); len(n) >= 3 {
				answers[n] = true
			}
		}
		for _, a := range arms {
			named := map[string]bool{}
			for _, t := range a.tokens {
				nt := norm(t)
				for n := range answers {
					if strings.Contains(nt, n) {
						named[n] = true
					}
				}
			}
			own := norm(a.answer)
			if len(named) == 0 || named[own] || len(own) < 3 {
				continue
			}
			// an answer that is part of a longer named answer ("set" in "subset") proves nothing
			var names []string
			for n := range named {
				names = append(names, n)
			}
			bad++
			r.fail(rule, fmt.Sprintf("%s/arm %s", c.fdName(fd), strings.Join(a.tokens, " ")), c.pos(a.at.Pos()),
				fmt.Sprintf("the arm at %s is selected by %s, which names %s, and answers %q, the answer of another arm: what is recognised as one kind is written as another", c.pos(a.at.Pos()), strings.Join(a.tokens, " "), strings.Join(sortedStrings(names), "/"), a.answer))
		}
	}
	for _, fd := range fds {
		info := c.infoFor(fd)
		if info == nil || fd.Body == nil {
			continue
		}
		tokensOf := func(e ast.Expr) []string {
			var toks []string
			ast.Inspect(e, func(x ast.Node) bool {
				switch s := x.(type) {
				case *ast.BasicLit:
					if s.Kind == token.STRING {
						if tv := info.Types[s]; tv.Value != nil {
							toks = append(toks, strings.Trim(tv.Value.ExactString(), "\""))
						}
					}
				case *ast.Ident:
					if tn, ok := info.Uses[s].(*types.TypeName); ok && tn.Pkg() != nil {
						toks = append(toks, tn.Name())
					}
				}
				return true
			})
			return toks
		}
		answerOf := func(body []ast.Stmt) (string, bool) {
			if len(body) != 1 {
				return "", false
			}
			var e ast.Expr
			switch s := body[0].(type) {
			case *ast.AssignStmt:
				if len(s.Rhs) == 1 && len(s.Lhs) == 1 && s.Tok == token.ASSIGN {
					e = s.Rhs[0]
				}
			case *ast.ReturnStmt:
				if len(s.Results) == 1 {
					e = s.Results[0]
				}
			}
			if e == nil {
				return "", false
			}
			tv := info.Types[e]
			if tv.Value == nil || !isStringType(tv.Type) {
				return "", false
			}
			return strings.Trim(tv.Value.ExactString(), "\""), true
		}
		ast.Inspect(fd.Body, func(x ast.Node) bool {
			switch s := x.(type) {
			case *ast.SwitchStmt:
				if s.Tag != nil {
					return true
				}
				var arms []arm
				for _, cl := range s.Body.List {
					cc := cl.(*ast.CaseClause)
					if len(cc.List) != 1 {
						continue
					}
					if ans, ok := answerOf(cc.Body); ok {
						arms = append(arms, arm{tokensOf(cc.List[0]), ans, cc})
					}
				}
				judge(fd, arms)
			case *ast.CompositeLit:
				if mt, ok := info.TypeOf(s).Underlying().(*types.Map); ok && isStringType(mt.Key()) && isStringType(mt.Elem()) {
					var arms []arm
					for _, el := range s.Elts {
						if kv, ok := el.(*ast.KeyValueExpr); ok {
							ktv, vtv := info.Types[kv.Key], info.Types[kv.Value]
							if ktv.Value != nil && vtv.Value != nil {
								arms = append(arms, arm{[]string{strings.Trim(ktv.Value.ExactString(), "\"")}, strings.Trim(vtv.Value.ExactString(), "\""), kv})
							}
						}
					}
					judge(fd, arms)
				}
			}
			return true
		})
	}
	if bad == 0 {
		r.ok(rule, "arms-and-answers", "", fmt.Sprintf("%d switches and tables from kinds to names; every arm whose test names one of the answers gives that answer", switches))
	}
}

func sortedStrings(s []string) []string {
	out := append([]string{}, s...)
	for i := range out {
		for j := i + 1; j < len(out); j++ {
			if out[j] < out[i] {
				out[i], out[j] = out[j], out[i]
			}
		}
	}
	return out
}

// ---------------------------------------------------------------- two callers agree on the order of two arguments

// checkSiblingCallsAgree: a private function with two integer parameters of the same type that is
// handed the same two expressions by two callers, in opposite order: one of the two is wrong
// (the compiler cannot tell).  Constants are not compared.
func checkSiblingCallsAgree(c *Ctx, r *Rec, rule string, fds []*ast.FuncDecl) {
	type site struct {
		fd   *ast.FuncDecl
		call *ast.CallExpr
	}
	sites := map[*types.Func][]site{}
	var order []*types.Func
	for _, fd := range fds {
		info := c.infoFor(fd)
		if info == nil || fd.Body == nil {
			continue
		}
		ast.Inspect(fd.Body, func(x ast.Node) bool {
			call, ok := x.(*ast.CallExpr)
			if !ok {
				return true
			}
			fn := calleeOf(info, call)
			if fn == nil || fn.Exported() || fn.Pkg() == nil {
				return true
			}
			fn = fn.Origin()
			if c.declOf(fn) == nil {
				return true
			}
			if len(sites[fn]) == 0 {
				order = append(order, fn)
			}
			sites[fn] = append(sites[fn], site{fd, call})
			return true
		})
	}
	pairs, bad := 0, 0
	for _, fn := range order {
		sig := fn.Type().(*types.Signature)
		if sig.Variadic() || len(sites[fn]) < 2 {
			continue
		}
		for i := 0; i < sig.Params().Len(); i++ {
			for j := i + 1; j < sig.Params().Len(); j++ {
				pi, pj := sig.Params().At(i), sig.Params().At(j)
				if !isIntegerType(pi.Type()) || !types.Identical(pi.Type(), pj.Type()) {
					continue
				}
				pairs++
				for a := 0; a < len(sites[fn]); a++ {
					for b := a + 1; b < len(sites[fn]); b++ {
						s, t := sites[fn][a], sites[fn][b]
						if len(s.call.Args) <= j || len(t.call.Args) <= j || s.fd == t.fd {
							continue
						}
						si, sj := exprStr(s.call.Args[i]), exprStr(s.call.Args[j])
						ti, tj := exprStr(t.call.Args[i]), exprStr(t.call.Args[j])
						if si == sj || si != tj || sj != ti {
							continue
						}
						if c.infoFor(s.fd).Types[s.call.Args[i]].Value != nil || c.infoFor(s.fd).Types[s.call.Args[j]].Value != nil {
							continue
						}
						// a function that calls itself with its two parameters exchanged does so on purpose
						if c.funcOf(s.fd) != nil && (c.funcOf(s.fd).Origin() == fn || c.funcOf(t.fd).Origin() == fn) {
							continue
						}
						bad++
						r.fail(rule, fmt.Sprintf("%s.%s/arguments %d,%d", fn.Pkg().Name(), fn.Name(), i+1, j+1), c.pos(t.call.Pos()),
							fmt.Sprintf("%s(%s %s, %s %s) is handed (%s, %s) at %s and (%s, %s) at %s: the same two values in opposite order, and both parameters have the type %s, so the compiler accepts either - one of the two callers has them the wrong way round", fn.Name(), pi.Name(), pi.Type(), pj.Name(), pj.Type(), si, sj, c.pos(s.call.Pos()), ti, tj, c.pos(t.call.Pos()), pi.Type()))
					}
				}
			}
		}
	}
	if bad == 0 {
		r.ok(rule, "sibling-calls", "", fmt.Sprintf("%d pairs of same-typed integer parameters of private functions; no two callers hand the same two values in opposite order", pairs))
	}
}

// ---------------------------------------------------------------- the first round of a loop over an iterator is asked for

// checkFirstRoundAsked: `var it = S.GetIterator()` followed, in the same top-level statement
// list, by an unconditional loop `for { ... it.GetNext() ...; if !it.HasNext() { break } }` whose
// first round reaches the GetNext without passing any test, with nothing that touches the
// iterator and no test of S (or of something computed from S) in front of the loop: for an empty
// S the body runs once with a value that is not there.  (A loop exit that was moved behind the
// statements it used to guard.)
func checkFirstRoundAsked(c *Ctx, r *Rec, rule string, fds []*ast.FuncDecl) {
	loops, bad := 0, 0
	for _, fd := range fds {
		info := c.infoFor(fd)
		if info == nil || fd.Body == nil || hasGoto(fd.Body) {
			continue
		}
		// the top-level statement lists: the function's own and those of its function literals
		lists := [][]ast.Stmt{fd.Body.List}
		for _, lit := range allFuncLits(fd.Body) {
			lists = append(lists, lit.Body.List)
		}
		for _, list := range lists {
			for i, s := range list {
				lhs, rhs, ok := multiDefStmt(s)
				if !ok || len(lhs) != 1 {
					continue
				}
				src, mname, call, isCall := methodCall(ast.Unparen(rhs))
				if !isCall || mname != "GetIterator" || len(call.Args) != 0 {
					continue
				}
				it := identObj(info, lhs[0])
				srcObj := identObj(info, src)
				if it == nil || srcObj == nil {
					continue
				}
				// what is computed from the source in this list
				derived := map[types.Object]bool{srcObj: true}
				for _, t := range list {
					if l2, r2, ok := multiDefStmt(t); ok {
						if mentionsAny(info, r2, derived) {
							for _, l := range l2 {
								if o := identObj(info, l); o != nil {
									derived[o] = true
								}
							}
						}
					}
				}
				for j := i + 1; j < len(list); j++ {
					t := list[j]
					if mentionsObj(info, t, it) {
						fs, isFor := t.(*ast.ForStmt)
						if !isFor || fs.Cond != nil || fs.Init != nil || fs.Post != nil {
							break
						}
						loops++
						// a test of the source, or of something computed from it, in front of the loop?
						guarded := false
						for _, u := range list[:j] {
							// a statement that looks at the source (or at something computed from it) and can
							// leave the function
							leaves := false
							inspectNoLit(u, func(y ast.Node) bool {
								switch z := y.(type) {
								case *ast.ReturnStmt:
									leaves = true
								case *ast.CallExpr:
									if noReturnCall(info, z) {
										leaves = true
									}
								}
								return true
							})
							switch cs := u.(type) {
							case *ast.IfStmt:
								if leaves && mentionsAny(info, cs.Cond, derived) {
									guarded = true
								}
							case *ast.SwitchStmt, *ast.TypeSwitchStmt, *ast.ForStmt, *ast.RangeStmt, *ast.SelectStmt:
								if leaves && mentionsAny(info, cs, derived) {
									guarded = true
								}
							}
						}
						if guarded {
							break
						}
						// the first GetNext of the first round: reached from the start of the body over
						// unconditional edges only
						var first *ast.CallExpr
						g := newFG(info, fs.Body)
						inspectNoLit(fs.Body, func(x ast.Node) bool {
							if first == nil && methodCallOn(info, x, it, "GetNext") {
								first = x.(*ast.CallExpr)
							}
							return true
						})
						if first == nil {
							break
						}
						reached, _ := g.exists(pathQuery{from: point{g.entry(), 0},
							edgeOK:   func(ast.Expr, bool) bool { return false },
							goalNode: func(n ast.Node) bool { return containsNode(n, first) }})
						// ... and nothing in front of it in that round asks the iterator
						asked := false
						if reached {
							asked, _ = g.exists(pathQuery{from: point{g.entry(), 0},
								edgeOK: func(ast.Expr, bool) bool { return false },
								stop:   func(n ast.Node) bool { return containsNode(n, first) },
								goalNode: func(n ast.Node) bool {
									return !containsNode(n, first) && nodeHas(n, func(y ast.Node) bool { return methodCallOn(info, y, it, "HasNext") })
								}})
						}
						if reached && !asked {
							bad++
							r.fail(rule, fmt.Sprintf("%s/first-round %s", c.fdName(fd), it.Name()), c.pos(first.Pos()),
								fmt.Sprintf("the loop at %s takes %s.GetNext() at %s in its first round before anything has asked whether there is a value (the exit test comes behind it), and nothing in front of the loop looks at %s: for an empty %s the body runs once with a value that is not there", c.pos(fs.Pos()), it.Name(), c.pos(first.Pos()), srcObj.Name(), srcObj.Name()))
						}
						break
					}
				}
			}
		}
	}
	if bad == 0 {
		r.ok(rule, "first-rounds", "", fmt.Sprintf("%d unconditional loops over a fresh iterator; none takes a value in its first round before asking", loops))
	}
}

func mentionsAny(info *types.Info, n ast.Node, objs map[types.Object]bool) bool {
	found := false
	ast.Inspect(n, func(x ast.Node) bool {
		if id, ok := x.(*ast.Ident); ok && objs[info.Uses[id]] {
			found = true
		}
		return !found
	})
	return found
}

func allFuncLits(n ast.Node) []*ast.FuncLit {
	var out []*ast.FuncLit
	ast.Inspect(n, func(x ast.Node) bool {
		if fl, ok := x.(*ast.FuncLit); ok {
			out = append(out, fl)
		}
		return true
	})
	return out
}

// ---------------------------------------------------------------- a break that leaves nothing

// checkBreaksLeaveSomething: an unlabelled `break` as the last statement of a case of a switch (or
// select) that stands inside a loop.  It leaves the switch, which the end of the case does anyway:
// the loop it was written to leave goes on.  (When an `if` is turned into a `switch`, the `break`
// inside it changes its meaning.)
func checkBreaksLeaveSomething(c *Ctx, r *Rec, rule string, fds []*ast.FuncDecl) {
	breaks, bad := 0, 0
	for _, fd := range fds {
		info := c.infoFor(fd)
		if info == nil || fd.Body == nil {
			continue
		}
		var visit func(n ast.Node, inLoop bool)
		visit = func(n ast.Node, inLoop bool) {
			ast.Inspect(n, func(x ast.Node) bool {
				switch s := x.(type) {
				case *ast.FuncLit:
					visit(s.Body, false)
					return false
				case *ast.ForStmt:
					visit(s.Body, true)
					return false
				case *ast.RangeStmt:
					visit(s.Body, true)
					return false
				case *ast.SwitchStmt, *ast.TypeSwitchStmt, *ast.SelectStmt:
					var body *ast.BlockStmt
					switch t := s.(type) {
					case *ast.SwitchStmt:
						body = t.Body
					case *ast.TypeSwitchStmt:
						body = t.Body
					case *ast.SelectStmt:
						body = t.Body
					}
					for _, cl := range body.List {
						var stmts []ast.Stmt
						switch cc := cl.(type) {
						case *ast.CaseClause:
							stmts = cc.Body
						case *ast.CommClause:
							stmts = cc.Body
						}
						if k := len(stmts); k > 0 {
							if br, ok := stmts[k-1].(*ast.BranchStmt); ok && br.Tok == token.BREAK && br.Label == nil {
								breaks++
								if inLoop && k > 1 {
									bad++
									r.fail(rule, fmt.Sprintf("%s/break", c.fdName(fd)), c.pos(br.Pos()),
										fmt.Sprintf("the `break` at %s is the last statement of a case of the switch at %s, which stands inside a loop: it leaves the switch, as the end of the case does anyway, and the loop goes on (a `break` that was written to leave the loop, in an `if` that became a `switch`)", c.pos(br.Pos()), c.pos(x.Pos())))
								}
							}
						}
						for _, st := range stmts {
							visit(st, inLoop)
						}
					}
					return false
				}
				return true
			})
		}
		visit(fd.Body, false)
	}
	if bad == 0 {
		r.ok(rule, "breaks", "", fmt.Sprintf("%d trailing breaks in cases; none of them stands in a loop it does not leave", breaks))
	}
}

// ---------------------------------------------------------------- assertions

// nilAssertion: the panic call is the whole body of `if X == nil { panic(...) }` (a check on a value
// that the code has just made or always has): an assertion, not a way the operation ends.
func nilAssertion(info *types.Info, root ast.Node, call ast.Node) bool {
	chain := pathTo(root, call)
	for i := len(chain) - 2; i >= 0; i-- {
		is, ok := chain[i].(*ast.IfStmt)
		if !ok {
			continue
		}
		if !containsNode(is.Body, call) || len(is.Body.List) != 1 {
			return false
		}
		be, ok := ast.Unparen(is.Cond).(*ast.BinaryExpr)
		if !ok || be.Op != token.EQL {
			return false
		}
		tx, ty := info.Types[be.X], info.Types[be.Y]
		return tx.IsNil() || ty.IsNil()
	}
	return false
}

// rePanicOnly: `defer func() { if r := recover(); r != nil { panic(r) } }()`: the deferred function
// passes on what it caught, unchanged.
func rePanicOnly(info *types.Info, ds *ast.DeferStmt) bool {
	lit, ok := ast.Unparen(ds.Call.Fun).(*ast.FuncLit)
	if !ok || len(ds.Call.Args) != 0 || len(lit.Body.List) != 1 {
		return false
	}
	is, ok := lit.Body.List[0].(*ast.IfStmt)
	if !ok || is.Init == nil || is.Else != nil || len(is.Body.List) != 1 {
		return false
	}
	as, ok := is.Init.(*ast.AssignStmt)
	if !ok || len(as.Lhs) != 1 || len(as.Rhs) != 1 {
		return false
	}
	rc, ok := ast.Unparen(as.Rhs[0]).(*ast.CallExpr)
	if !ok || !isBuiltinCall(info, rc, "recover") {
		return false
	}
	caught := identObj(info, as.Lhs[0])
	es, ok := is.Body.List[0].(*ast.ExprStmt)
	if !ok || caught == nil {
		return false
	}
	pc, ok := es.X.(*ast.CallExpr)
	return ok && isBuiltinCall(info, pc, "panic") && len(pc.Args) == 1 && identObj(info, pc.Args[0]) == caught
}
