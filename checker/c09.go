package main

// C09 — Sorting yields an ordered permutation for every ranker (structural clauses).

import (
	"fmt"
	"go/ast"
	"go/token"
	"go/types"
	"strings"
)

func init() {
	register(&propInfo{
		ID:      "C09",
		Engines: "PATH (loop-progress forms independent of the ranker), SYM (octagon: merge step under the invariant merged = left+right consumed; driver slice bounds; reverse indices), provenance of element stores, call-site tables",
		Decided: "D1 every loop of the sorter terminates for every ranker: progress is made on every path whatever the ranker answers; " +
			"D2 every element stored by the sorter is an element loaded from a slice of the same element type (or moved by copy/swap): no value is invented; " +
			"D3 the Sortable methods of Array, List and Catalog hand the sorter the live backing array and the caller's ranker unchanged, the default variant uses a collator created in the call; " +
			"D4 the merge step is the canonical one: invariant mergedIndex = leftIndex+rightIndex, all accesses in bounds, the element taken when both runs are non-empty is never the greater one under the sorter's ranker, an exhausted run makes the other be copied; " +
			"D5 the driver merges adjacent runs buffer[left:middle], buffer[middle:right] into values[left:right] with 0<=left<=middle<=right<=length on all integers; " +
			"D6 ReverseValues swaps positions i and length-1-i for i in [0, length/2); ShuffleValues only swaps." +
			" Also: no sorter method keeps the caller's array (or the array it exchanged roles with) after the call; a loop steered by the ranker's or a collator's answer - in the sorter and in the ordering methods of Array and List - is conjoined with a bound on a stepped counter; every block of a pass is merged (no iteration skips the merge, the block loop is not left early); reversal is stated as an invariant (mirror positions, lower index from 0, exactly while lower < upper)." +
			" Round 7: no unsigned size-minus-constant where the size may be zero; index guards exclude the length." +
			" Rounds 8-9: consecutive copies into one slice tile it, and two sibling places do not put different leading blocks in front of the same offset.",
		NotDecided: "the global induction that after the pass of width w every run of length w is sorted and a permutation (it follows from D4+D5 but is not mechanised), uniformity of the shuffle.",
		Run:        runC09,
	})
}

func runC09(c *Ctx, r *Rec) {
	srt := c.mustImpl(r, "bind", "agent", "SorterLike")
	if srt == nil {
		return
	}
	info := c.info("agent")
	ms := c.methodsOf(srt)
	checkSorterKeepsNothing(c, r, "D6-operand-not-kept", srt)
	{
		fds := fileFuncs(c, "agent", srt)
		for _, nm := range []string{"ArrayLike", "ListLike", "CatalogLike"} {
			if n, err := c.impl("collection", nm); err == nil && n != nil {
				fds = append(fds, fileFuncs(c, "collection", n)...)
			}
		}
		shapeLints(c, r, fds)
	}
	checkRandomLimitPositive(c, r, "D6-random-limit-positive", append(c.allFuncDecls("agent"), c.allFuncDecls("collection")...))
	// ---- D1
	for _, name := range sortedKeys(ms) {
		checkLoops(c, r, "D1-terminates-for-every-ranker", ms[name], nil)
	}
	// a loop whose continuation is decided by the ranker alone need not end for some rankers
	// (and walks off the array when the ranker never says stop): a bound on a stepped counter must be conjoined
	steered := func(info *types.Info, fd *ast.FuncDecl) {
		for li, loop := range loopsIn(fd.Body) {
			fs, ok := loop.(*ast.ForStmt)
			if !ok || fs.Cond == nil {
				continue
			}
			var conj []ast.Expr
			var split func(e ast.Expr)
			split = func(e ast.Expr) {
				if be, ok := ast.Unparen(e).(*ast.BinaryExpr); ok && be.Op == token.LAND {
					split(be.X)
					split(be.Y)
					return
				}
				conj = append(conj, e)
			}
			split(fs.Cond)
			callsRanker := func(e ast.Expr) bool {
				found := false
				ast.Inspect(e, func(x ast.Node) bool {
					if call, ok := x.(*ast.CallExpr); ok {
						// a call of a function VALUE: a func-typed field or variable
						fun := ast.Unparen(call.Fun)
						if f := selectorField(info, fun); f != nil {
							if _, isSig := f.Type().Underlying().(*types.Signature); isSig {
								found = true
							}
						} else if id, ok := fun.(*ast.Ident); ok {
							if v, ok := info.Uses[id].(*types.Var); ok {
								if _, isSig := v.Type().Underlying().(*types.Signature); isSig {
									found = true
								}
							}
						}
						// or the verdict of a collator
						if _, mname, _, ok := methodCall(call); ok && (mname == "CompareValues" || mname == "RankValues") {
							found = true
						}
					}
					return true
				})
				return found
			}
			uses, bounded := false, false
			for _, cj := range conj {
				if callsRanker(cj) {
					uses = true
					continue
				}
				// a comparison on a variable that the body (or post) steps
				if be, ok := ast.Unparen(cj).(*ast.BinaryExpr); ok {
					for _, side := range []ast.Expr{be.X, be.Y} {
						if o := identObj(info, side); o != nil {
							stepped := false
							ast.Inspect(fs, func(x ast.Node) bool {
								switch st := x.(type) {
								case *ast.IncDecStmt:
									if identObj(info, st.X) == o {
										stepped = true
									}
								case *ast.AssignStmt:
									if (st.Tok == token.ADD_ASSIGN || st.Tok == token.SUB_ASSIGN) && len(st.Lhs) == 1 && identObj(info, st.Lhs[0]) == o {
										stepped = true
									}
								}
								return true
							})
							if stepped {
								bounded = true
							}
						}
					}
				}
			}
			if uses {
				r.check(bounded, "D1-terminates-for-every-ranker", fmt.Sprintf("%s/ranker-loop#%d", c.fdName(fd), li+1), c.pos(fs.Pos()),
					"the ranker's answer is conjoined with a bound on a stepped counter",
					"the loop continues as long as the ranker (or collator) says so and nothing else bounds it: for values on which it keeps answering that way (an inconsistent ranker, one that always says Lesser, values that are all equal) the loop does not end")
			}
		}
	}
	for _, name := range sortedKeys(ms) {
		steered(info, ms[name])
	}
	// the ordering methods of Array and List that delegate to the sorter
	for _, iface := range []string{"ArrayLike", "ListLike"} {
		if n, err := c.impl("collection", iface); err == nil && n != nil {
			cm := c.methodsOf(n)
			for _, name := range sortedKeys(cm) {
				if strings.HasPrefix(name, "Sort") || strings.HasPrefix(name, "Shuffle") || strings.HasPrefix(name, "Reverse") {
					steered(c.info("collection"), cm[name])
				}
			}
		}
	}
	r.floor("D1-terminates-for-every-ranker", 1)

	// ---- D2 provenance of element stores
	nstores := 0
	for _, name := range sortedKeys(ms) {
		fd := ms[name]
		ast.Inspect(fd.Body, func(x ast.Node) bool {
			as, ok := x.(*ast.AssignStmt)
			if !ok {
				return true
			}
			for i, l := range as.Lhs {
				ix, ok := ast.Unparen(l).(*ast.IndexExpr)
				if !ok {
					continue
				}
				st, isSlice := info.Types[ix.X].Type.Underlying().(*types.Slice)
				if !isSlice {
					continue
				}
				nstores++
				construct := fmt.Sprintf("%s/store#%d", c.fdName(fd), nstores)
				bad := ""
				if len(as.Lhs) != len(as.Rhs) {
					bad = "element stored from a multi-value expression"
				} else {
					src := resolveInit(info, fd, as.Rhs[i])
					if id, isID := src.(*ast.Ident); isID {
						// a local with several definitions: the one that reaches the store
						if d := reachingDef(newFG(info, fd.Body), info, fd, id, as); d != nil {
							src = resolveInit(info, fd, d)
						}
					}
					switch rix := src.(type) {
					case *ast.IndexExpr:
						if rt, ok := info.Types[rix.X].Type.Underlying().(*types.Slice); !ok || !types.Identical(rt.Elem(), st.Elem()) {
							bad = "the stored element comes from a slice of another type"
						}
					case *ast.Ident:
						if _, isVar := info.Uses[rix].(*types.Var); isVar && initOf(info, fd, rix) == nil {
							isParam := false
							for _, p := range paramObjs(info, fd) {
								if info.Uses[rix] == p {
									isParam = true
								}
							}
							// a local with several definitions, every one of them an element of a slice of the
							// right type (var next = right[j]; if ... { next = left[i] })
							allLoads, ndefs := true, 0
							ast.Inspect(fd.Body, func(y ast.Node) bool {
								lhs, rhs, ok := multiDef(y)
								if !ok {
									return true
								}
								var rr []ast.Expr
								if as2, isAs := y.(*ast.AssignStmt); isAs {
									rr = as2.Rhs
								} else if vs, isVs := y.(*ast.ValueSpec); isVs {
									rr = vs.Values
								}
								_ = rhs
								for li2, l2 := range lhs {
									if identObj(info, l2) != info.Uses[rix] {
										continue
									}
									ndefs++
									if len(rr) != len(lhs) {
										allLoads = false
										continue
									}
									ld, isLoad := ast.Unparen(rr[li2]).(*ast.IndexExpr)
									if !isLoad {
										allLoads = false
										continue
									}
									if rt, ok := info.Types[ld.X].Type.Underlying().(*types.Slice); !ok || !types.Identical(rt.Elem(), st.Elem()) {
										allLoads = false
									}
								}
								return true
							})
							if isParam {
								bad = "skip: the stored element is the parameter " + rix.Name
							} else if allLoads && ndefs > 0 {
								bad = ""
							} else {
								bad = "the stored element is " + exprStr(as.Rhs[i]) + ", a variable that was not read from a slice (a zero or invented value)"
							}
						} else {
							bad = "skip: the origin of the stored element " + exprStr(as.Rhs[i]) + " is not recognised"
						}
					case *ast.BasicLit, *ast.CompositeLit:
						bad = "the stored element is " + exprStr(as.Rhs[i]) + ", not an element read from a slice"
					default:
						bad = "skip: the origin of the stored element " + exprStr(as.Rhs[i]) + " is not recognised"
					}
				}
				r.verdict("D2-no-invented-values", construct, c.pos(as.Pos()), "stores an element read from a []V", bad)
			}
			return true
		})
	}
	r.floor("D2-no-invented-values", 1)

	// ---- D3 live delegation
	checkSortDelegation(c, r)

	// ---- D4 merge step, D5 driver
	var mergeFD, driverFD *ast.FuncDecl
	for _, name := range sortedKeys(ms) {
		fd := ms[name]
		if ast.IsExported(name) {
			continue
		}
		sig := c.funcOf(fd).Type().(*types.Signature)
		nSlices := 0
		for i := 0; i < sig.Params().Len(); i++ {
			if _, ok := sig.Params().At(i).Type().Underlying().(*types.Slice); ok {
				nSlices++
			}
		}
		switch nSlices {
		case 3:
			mergeFD = fd
		case 1:
			if len(loopsIn(fd.Body)) >= 2 {
				driverFD = fd
			}
		}
	}
	if mergeFD == nil || driverFD == nil {
		r.skip("D4-merge-step", "agent."+srt.Obj().Name(), "", "cannot bind the merge helper (three slices) and the driver (one slice, nested loops)")
	} else {
		checkMergeStep(c, r, info, srt, mergeFD)
		checkSortDriver(c, r, info, driverFD, c.funcOf(mergeFD))
	}

	// ---- unsigned arithmetic on sizes (the sorter's file: its methods and their helpers)
	{
		var fds []*ast.FuncDecl
		sorterFile := ""
		for _, fd := range ms {
			sorterFile = c.Fset.Position(fd.Pos()).Filename
		}
		for _, fd := range c.allFuncDecls("agent") {
			if c.Fset.Position(fd.Pos()).Filename == sorterFile {
				fds = append(fds, fd)
			}
		}
		checkUnsignedSizeMinus(c, r, "D5-unsigned-size-minus", fds)
		checkIndexGuardAdmitsLength(c, r, "D5-guard-excludes-the-length", fds)
		checkCopiesTile(c, r, "D4-copies-tile", fds)
	}
	// ---- D6 reverse / shuffle
	if fd := ms["ReverseValues"]; fd != nil {
		checkReverse(c, r, info, fd)
	} else {
		r.undecided("D6-reverse", "agent."+srt.Obj().Name()+".ReverseValues", "", "not found")
	}
	if fd := ms["ShuffleValues"]; fd != nil {
		bad := ""
		n := 0
		ast.Inspect(fd.Body, func(x ast.Node) bool {
			if as, ok := x.(*ast.AssignStmt); ok {
				hasIdx := false
				for _, l := range as.Lhs {
					if _, ok := ast.Unparen(l).(*ast.IndexExpr); ok {
						hasIdx = true
					}
				}
				if hasIdx {
					n++
					if !isSwap(as) && !exchangeThroughLocals(info, fd, as) {
						bad = "an element store at " + c.pos(as.Pos()) + " is not a swap of two positions: the result need not be a permutation"
					}
				}
			}
			return true
		})
		if n == 0 {
			bad = "skip: no element store in ShuffleValues itself (the exchange may live in a helper)"
		}
		r.verdict("D6-shuffle-swaps", c.fdName(fd), c.pos(fd.Pos()), fmt.Sprintf("%d element store(s), all swaps", n), bad)
	}
}

// exchangeThroughLocals: the store is a member of a statement list that exchanges cells by way of
// locals (`t = a[i]; a[i] = a[j]; a[j] = t`, or one local per cell).  The list is read in order:
// a local assigned from a cell holds what the cell holds at that point, a cell assigned from a
// local or a cell holds that.  At the end the written cells hold, between them, exactly what they
// held at the start; no variable of an index is assigned in the list.
func exchangeThroughLocals(info *types.Info, fd *ast.FuncDecl, store *ast.AssignStmt) bool {
	var list []ast.Stmt
	ast.Inspect(fd.Body, func(x ast.Node) bool {
		var l []ast.Stmt
		switch b := x.(type) {
		case *ast.BlockStmt:
			l = b.List
		case *ast.CaseClause:
			l = b.Body
		}
		for _, st := range l {
			if st == ast.Stmt(store) {
				list = l
			}
		}
		return list == nil
	})
	if list == nil {
		return false
	}
	cell := map[string]string{} // text of a cell -> token it holds
	local := map[types.Object]string{}
	indexVars := map[types.Object]bool{}
	written := map[string]bool{}
	valOf := func(e ast.Expr) (string, bool) {
		e = ast.Unparen(e)
		switch x := e.(type) {
		case *ast.IndexExpr:
			k := exprStr(x)
			ast.Inspect(x.Index, func(y ast.Node) bool {
				if id, ok := y.(*ast.Ident); ok {
					if o := info.Uses[id]; o != nil {
						indexVars[o] = true
					}
				}
				return true
			})
			if v, ok := cell[k]; ok {
				return v, true
			}
			return "@" + k, true
		case *ast.Ident:
			if v, ok := local[info.Uses[x]]; ok {
				return v, true
			}
		}
		return "", false
	}
	for _, st := range list {
		switch a := st.(type) {
		case *ast.AssignStmt:
			if len(a.Lhs) != len(a.Rhs) {
				for _, l := range a.Lhs {
					if _, isIx := ast.Unparen(l).(*ast.IndexExpr); isIx {
						return false
					}
					if o := identObj(info, l); o != nil {
						delete(local, o)
						if indexVars[o] {
							return false
						}
					}
				}
				continue
			}
			vals := make([]string, len(a.Rhs))
			oks := make([]bool, len(a.Rhs))
			for i, rh := range a.Rhs {
				vals[i], oks[i] = valOf(rh)
			}
			for i, l := range a.Lhs {
				l = ast.Unparen(l)
				if ix, isIx := l.(*ast.IndexExpr); isIx {
					if !oks[i] {
						return false
					}
					k := exprStr(ix)
					if _, seen := cell[k]; !seen {
						valOf(ix) // registers the variables of the index
					}
					cell[k] = vals[i]
					written[k] = true
					continue
				}
				if o := identObj(info, l); o != nil {
					if indexVars[o] {
						return false
					}
					if oks[i] {
						local[o] = vals[i]
					} else {
						delete(local, o)
					}
				}
			}
		case *ast.IncDecStmt:
			if o := identObj(info, a.X); o != nil && indexVars[o] {
				return false
			}
		case *ast.DeclStmt:
			if gd, ok := a.Decl.(*ast.GenDecl); ok {
				for _, sp := range gd.Specs {
					if vs, ok := sp.(*ast.ValueSpec); ok && len(vs.Names) == len(vs.Values) {
						for i, nm := range vs.Names {
							if v, ok := valOf(vs.Values[i]); ok && info.Defs[nm] != nil {
								local[info.Defs[nm]] = v
							}
						}
					}
				}
			}
		default:
			// a compound statement or a call: it must not store elements or touch the locals in play
			touches := false
			ast.Inspect(st, func(y ast.Node) bool {
				switch z := y.(type) {
				case *ast.AssignStmt:
					for _, l := range z.Lhs {
						if _, isIx := ast.Unparen(l).(*ast.IndexExpr); isIx {
							touches = true
						}
						if o := identObj(info, l); o != nil && (indexVars[o] || local[o] != "") {
							touches = true
						}
					}
				case *ast.IncDecStmt:
					if o := identObj(info, z.X); o != nil && (indexVars[o] || local[o] != "") {
						touches = true
					}
				}
				return !touches
			})
			if touches {
				return false
			}
		}
	}
	if len(written) < 2 {
		return false
	}
	have := map[string]int{}
	for k := range written {
		have["@"+k]++
		have[cell[k]]--
	}
	for _, d := range have {
		if d != 0 {
			return false
		}
	}
	return true
}

func isSwap(as *ast.AssignStmt) bool {
	if len(as.Lhs) != 2 || len(as.Rhs) != 2 || as.Tok != token.ASSIGN {
		return false
	}
	return exprStr(as.Lhs[0]) == exprStr(as.Rhs[1]) && exprStr(as.Lhs[1]) == exprStr(as.Rhs[0]) && exprStr(as.Lhs[0]) != exprStr(as.Lhs[1])
}

func checkSortDelegation(c *Ctx, r *Rec) {
	info := c.info("collection")
	arr, _ := c.impl("collection", "ArrayLike")
	lst, _ := c.impl("collection", "ListLike")
	cat, _ := c.impl("collection", "CatalogLike")
	if arr == nil || lst == nil || cat == nil {
		r.undecided("D3-live-delegation", "collection", "", "cannot bind array/list/catalog types")
		return
	}
	// array: the sorter receives the receiver itself
	ams := c.methodsOf(arr)
	for _, name := range []string{"SortValuesWithRanker", "ReverseValues", "ShuffleValues"} {
		fd := ams[name]
		if fd == nil {
			r.undecided("D3-live-delegation", "collection."+arr.Obj().Name()+"."+name, "", "not found")
			continue
		}
		recv := recvObj(info, fd)
		params := paramObjs(info, fd)
		var sorterCall *ast.CallExpr
		target := map[string]string{"SortValuesWithRanker": "SortValues", "ReverseValues": "ReverseValues", "ShuffleValues": "ShuffleValues"}[name]
		ast.Inspect(fd.Body, func(x ast.Node) bool {
			if _, mname, call, ok := methodCall(x); ok && mname == target && len(call.Args) == 1 {
				if cf := calleeOf(info, call); cf != nil && c.roleOf(cf.Pkg()) == "agent" {
					sorterCall = call
				}
			}
			return true
		})
		bad := ""
		if sorterCall == nil {
			// the operation may be handed, as a method expression or method value, to a private
			// helper of the type that applies it to a sorter and to the helper's own receiver
			ast.Inspect(fd.Body, func(x ast.Node) bool {
				call, ok := x.(*ast.CallExpr)
				if !ok || bad != "" {
					return true
				}
				rx, _, _, isM := methodCall(call)
				hd := c.declOf(calleeOf(info, call))
				if !isM || hd == nil || hd.Body == nil || c.infoFor(hd) != info || !isObj(info, rx, recv) {
					return true
				}
				hps := paramObjs(info, hd)
				hrecv := recvObj(info, hd)
				for ai, a := range call.Args {
					se, ok := ast.Unparen(a).(*ast.SelectorExpr)
					if !ok || se.Sel.Name != target || ai >= len(hps) {
						continue
					}
					if sel, ok := info.Selections[se]; !ok || (sel.Kind() != types.MethodExpr && sel.Kind() != types.MethodVal) || c.roleOf(sel.Obj().Pkg()) != "agent" {
						continue
					}
					// inside the helper: operation(<sorter>, receiver)  or  operation(receiver)
					applied, live := false, false
					ast.Inspect(hd.Body, func(y ast.Node) bool {
						if hc, ok := y.(*ast.CallExpr); ok && isObj(info, hc.Fun, hps[ai]) && len(hc.Args) >= 1 {
							applied = true
							if isObj(info, hc.Args[len(hc.Args)-1], hrecv) {
								live = true
							}
						}
						return true
					})
					switch {
					case applied && live:
						sorterCall = call
					case applied:
						bad = "the helper " + hd.Name.Name + " applies the sorter's " + target + " to something else than the live backing array: the collection itself stays as it was"
					}
				}
				return true
			})
			if sorterCall != nil {
				r.ok("D3-live-delegation", c.fdName(fd), c.pos(fd.Pos()), "the sorter's "+target+" is handed to a private helper that applies it to the receiver")
				continue
			}
			if bad == "" {
				r.skip("D3-live-delegation", c.fdName(fd), c.pos(fd.Pos()), "no call of the sorter's "+target+" in the method itself (done by hand or through a helper the rule does not follow)")
				continue
			}
		}
		switch {
		case bad != "":
		case !isObj(info, sorterCall.Args[0], recv):
			bad = "the sorter is handed " + exprStr(sorterCall.Args[0]) + " instead of the live backing array: the collection itself stays unsorted"
		}
		if name == "SortValuesWithRanker" && bad == "" {
			// the sorter is made with the caller's ranker
			okRanker := false
			ast.Inspect(fd.Body, func(x ast.Node) bool {
				if _, mname, call, ok := methodCall(x); ok && mname == "MakeWithRanker" && len(call.Args) == 1 && len(params) == 1 && isObj(info, call.Args[0], params[0]) {
					okRanker = true
				}
				return true
			})
			if !okRanker {
				bad = "the sorter is not created with the caller's ranker (MakeWithRanker(ranker)): a custom order is ignored"
			}
			// every path that has more than one element sorts: the only guard allowed is on the size
		}
		r.check(bad == "", "D3-live-delegation", c.fdName(fd), c.pos(fd.Pos()), "sorter."+target+"(receiver) with the caller's arguments", bad)
	}
	if fd := ams["SortValues"]; fd != nil {
		// collator created in the call; its RankValues passed on
		bad := "skip: no SortValuesWithRanker/MakeWithRanker call with a recognisable ranker argument"
		ast.Inspect(fd.Body, func(x ast.Node) bool {
			_, mname, call, ok := methodCall(x)
			if !ok || (mname != "SortValuesWithRanker" && mname != "MakeWithRanker") || len(call.Args) != 1 {
				return true
			}
			src := resolveInit(info, fd, call.Args[0])
			se, ok := src.(*ast.SelectorExpr)
			if !ok || se.Sel.Name != "RankValues" {
				return true
			}
			owner := resolveInit(info, fd, se.X)
			_, oname, _, isCall := methodCall(owner)
			t := info.TypeOf(se.X)
			isColl := t != nil && derefNamed(t) != nil && derefNamed(t).Obj().Name() == "CollatorLike"
			switch {
			case isCall && oname == "Make" && isColl:
				bad = ""
			case selectorField(info, owner) != nil || func() bool {
				id, ok := owner.(*ast.Ident)
				if !ok {
					return false
				}
				v, ok := info.Uses[id].(*types.Var)
				return ok && v.Parent() == v.Pkg().Scope()
			}():
				bad = "the default order is the RankValues of a collator that is kept between calls (a field or package variable), not of one created in this call: its traversal depth state is shared by all sorts"
			default:
				bad = "skip: the collator behind the ranker is not recognisably created in this call"
			}
			return true
		})
		r.verdict("D3-live-delegation", c.fdName(fd), c.pos(fd.Pos()), "default order = RankValues of a collator created in this call", bad)
	}
	// list and catalog delegate to the storage's same-named method with the same arguments
	for _, t := range []struct {
		n     *types.Named
		iface string
	}{{lst, "ArrayLike"}, {cat, "ListLike"}} {
		storage := c.fieldOfIface(t.n, "collection", t.iface)
		tms := c.methodsOf(t.n)
		for _, name := range []string{"SortValues", "SortValuesWithRanker", "ReverseValues", "ShuffleValues"} {
			fd := tms[name]
			if fd == nil || storage == nil {
				if fd != nil && storage == nil {
					r.skip("D3-live-delegation", "collection."+t.n.Obj().Name()+"."+name, "", "the collection does not keep its values in a "+t.iface+" field: another representation, the delegation rule is not bound to it")
				} else {
					r.undecided("D3-live-delegation", "collection."+t.n.Obj().Name()+"."+name, "", "method or storage field not found")
				}
				continue
			}
			params := paramObjs(info, fd)
			okDel := false
			if len(fd.Body.List) == 1 {
				if es, ok := fd.Body.List[0].(*ast.ExprStmt); ok {
					if rx, mname, call, ok := methodCall(es.X); ok && mname == name && selectorField(info, rx) == storage && len(call.Args) == len(params) {
						okDel = true
						for i := range params {
							if !isObj(info, call.Args[i], params[i]) {
								okDel = false
							}
						}
					}
				}
			}
			if okDel {
				r.ok("D3-live-delegation", c.fdName(fd), c.pos(fd.Pos()), "storage."+name+"(same arguments)")
				continue
			}
			// not the one-line delegation: judge by what can be seen to be wrong
			ordering := map[string]bool{"SortValues": true, "SortValuesWithRanker": true, "ReverseValues": true, "ShuffleValues": true}
			var calls []string
			onCopy, passesParams := "", true
			ast.Inspect(fd.Body, func(x ast.Node) bool {
				rx, mname, call, ok := methodCall(x)
				if !ok || !ordering[mname] {
					return true
				}
				calls = append(calls, mname)
				if _, inner, _, ok := methodCall(ast.Unparen(resolveInit(info, fd, rx))); ok && inner == "AsArray" {
					onCopy = exprStr(rx)
				}
				for _, p := range params {
					used := false
					for _, a := range call.Args {
						if nodeHas(a, func(y ast.Node) bool { id, ok := y.(*ast.Ident); return ok && info.Uses[id] == types.Object(p) }) {
							used = true
						}
					}
					if !used {
						passesParams = false
					}
				}
				// a Go array handed to a sorter: it must be the live storage, not a copy
				for _, a := range call.Args {
					if _, inner, _, ok := methodCall(ast.Unparen(resolveInit(info, fd, a))); ok && inner == "AsArray" {
						onCopy = exprStr(a)
					}
				}
				return true
			})
			bad := ""
			switch {
			case len(calls) == 0:
				bad = "skip: no ordering call is made in the method itself (it may live in a helper)"
				if len(fd.Body.List) == 0 {
					bad = "the method has an empty body: the values are not reordered"
				}
			case onCopy != "":
				bad = fmt.Sprintf("the ordering is applied to %s, a copy made by AsArray(): the collection itself keeps its order", onCopy)
			case !passesParams:
				bad = "an argument of the method is not handed on to the ordering call: the caller's ranker is ignored"
			default:
				for _, cn := range calls {
					if cn != name && !(name == "SortValues" && cn == "SortValuesWithRanker") {
						bad = fmt.Sprintf("%s is carried out by %s", name, cn)
					}
				}
				// the natural order is the RankValues of a collator over the elements themselves
				if name == "SortValues" && bad == "" {
					ast.Inspect(fd.Body, func(x ast.Node) bool {
						_, mname, call, ok := methodCall(x)
						if !ok || mname != "SortValuesWithRanker" || len(call.Args) != 1 {
							return true
						}
						src := ast.Unparen(resolveInit(info, fd, call.Args[0]))
						if lit, isLit := src.(*ast.FuncLit); isLit {
							// a wrapper that only hands its two parameters on to RankValues is the same thing
							if len(lit.Body.List) == 1 {
								if rs, ok := lit.Body.List[0].(*ast.ReturnStmt); ok && len(rs.Results) == 1 {
									if _, mn, rc, ok := methodCall(ast.Unparen(rs.Results[0])); ok && mn == "RankValues" && len(rc.Args) == 2 {
										var lps []types.Object
										for _, f := range lit.Type.Params.List {
											for _, nm := range f.Names {
												lps = append(lps, info.Defs[nm])
											}
										}
										if len(lps) == 2 && identObj(info, rc.Args[0]) == lps[0] && identObj(info, rc.Args[1]) == lps[1] {
											return true
										}
									}
								}
							}
							bad = "the natural order is replaced by a ranking function written out here: it ranks the elements differently from the default collator the sorter uses for the same Go array (for instance by only a part of each element)"
							return true
						}
						if se, ok := src.(*ast.SelectorExpr); ok && se.Sel.Name == "RankValues" {
							// the collator must be one over the element type of the storage
							ct := info.TypeOf(se.X)
							if n := derefNamed(ct); n != nil && n.TypeArgs() != nil && n.TypeArgs().Len() == 1 {
								if et := storageElem(storage.Type()); et != nil && !types.Identical(n.TypeArgs().At(0), et) {
									bad = fmt.Sprintf("the natural order is taken from a collator over %s, not over the elements (%s): elements that differ only in what that collator does not see are ranked Equal", shortType(n.TypeArgs().At(0)), shortType(et))
								}
							}
						}
						return true
					})
				}
			}
			if bad == "" && len(calls) > 0 {
				// an early return that skips the ordering may depend on the number of values only
				g := newFG(info, fd.Body)
				inspectNoLit(fd.Body, func(x ast.Node) bool {
					rs, ok := x.(*ast.ReturnStmt)
					if !ok || bad != "" {
						return true
					}
					after := false // is the return preceded by an ordering call on every path?
					ast.Inspect(fd.Body, func(y ast.Node) bool {
						if _, mname, call, ok := methodCall(y); ok && ordering[mname] && g.nodeDominates(call, rs) {
							after = true
						}
						return true
					})
					if after {
						return true
					}
					pt, ok := g.locate(rs)
					if !ok {
						return true
					}
					for _, ec := range g.edgeConds(pt) {
						sizeTest := nodeHas(ec.cond, func(y ast.Node) bool {
							if call, ok := y.(*ast.CallExpr); ok {
								if isBuiltinCall(info, call, "len") {
									return true
								}
								if _, mname, _, ok := methodCall(call); ok && (mname == "GetSize" || mname == "IsEmpty") {
									return true
								}
							}
							return false
						})
						if id, isId := ast.Unparen(ec.cond).(*ast.Ident); isId && !sizeTest {
							// a local: resolve one step
							if init := initOf(info, fd, id); init != nil {
								sizeTest = nodeHas(init, func(y ast.Node) bool {
									if call, ok := y.(*ast.CallExpr); ok {
										if isBuiltinCall(info, call, "len") {
											return true
										}
										if _, mname, _, ok := methodCall(call); ok && (mname == "GetSize" || mname == "IsEmpty") {
											return true
										}
									}
									return false
								})
							}
						}
						if !sizeTest {
							bad = fmt.Sprintf("the return at %s skips the ordering depending on `%s`, which is not a test of the number of values: whether %s reorders depends on what was called before", c.pos(rs.Pos()), exprStr(ec.cond), name)
						}
					}
					return true
				})
			}
			r.verdict("D3-live-delegation", c.fdName(fd), c.pos(fd.Pos()), "carried out by the same-named ordering of the live storage (or, for the natural order, by SortValuesWithRanker) with the method's own arguments", bad)
		}
	}
	r.floor("D3-live-delegation", 12)
}

func checkMergeStep(c *Ctx, r *Rec, info *types.Info, srt *types.Named, fd *ast.FuncDecl) {
	construct := c.fdName(fd)
	rule := "D4-merge-step"
	params := paramObjs(info, fd)
	var loop *ast.ForStmt
	loopIdx := 0
	for i, s := range fd.Body.List {
		if fs, ok := s.(*ast.ForStmt); ok {
			loop, loopIdx = fs, i
		}
	}
	if loop == nil || len(params) != 3 {
		r.skip(rule, construct, c.pos(fd.Pos()), "the merge helper is not `declarations; for mergedIndex < mergedLength { ... }`")
		return
	}
	// a merge that copies the rest of a run inside the loop and returns from there is another
	// design: "one step per round" is not what it does in those rounds
	leavesFromInside := false
	inspectNoLit(loop.Body, func(x ast.Node) bool {
		if _, ok := x.(*ast.ReturnStmt); ok {
			leavesFromInside = true
		}
		return true
	})
	if leavesFromInside {
		r.skip(rule, construct, c.pos(fd.Pos()), "the merge loop is left by a return from inside the loop (the rest of a run is copied there): another design, the step rule is not bound to it")
		return
	}
	// prefix: indices start at 0, lengths are len() of the parameters
	env0 := &symEnv{info: info}
	env0.resolve = func(e ast.Expr) (Val, bool) {
		if call, ok := e.(*ast.CallExpr); ok && isBuiltinCall(info, call, "len") && len(call.Args) == 1 {
			for i, p := range params {
				if isObj(info, call.Args[0], p) {
					return Val{Lin: linSym(fmt.Sprintf("len%d", i))}, true
				}
			}
		}
		return Val{}, false
	}
	p0 := symRun(env0, &ast.BlockStmt{List: fd.Body.List[:loopIdx]})
	if len(env0.problems) > 0 || len(p0) != 1 {
		r.skip(rule, construct, c.pos(fd.Pos()), "cannot interpret the initialisation: "+strings.Join(env0.problems, "; "))
		return
	}
	// roles of the locals: index variables (0) and length variables (len_i)
	idxKeys := []string{}
	lenKey := map[int]string{}
	for key, v := range p0[0].State {
		if v.Lin == nil {
			continue
		}
		if v.Lin.equal(k(0)) {
			idxKeys = append(idxKeys, key)
		}
		for i := 0; i < 3; i++ {
			if v.Lin.equal(sym(fmt.Sprintf("len%d", i))) {
				lenKey[i] = key
			}
		}
	}
	// which index belongs to which slice: by the element accesses in the loop
	idxOf := map[int]string{}
	ast.Inspect(loop, func(x ast.Node) bool {
		if ix, ok := x.(*ast.IndexExpr); ok {
			for i, p := range params {
				if isObj(info, ix.X, p) {
					if o := identObj(info, ix.Index); o != nil {
						idxOf[i] = objKey(o)
					}
				}
			}
		}
		return true
	})
	if len(idxOf) != 3 || len(idxKeys) != 3 {
		r.skip(rule, construct, c.pos(fd.Pos()), "cannot bind the three cursor variables of the merge")
		return
	}
	li, ri := sym("li"), sym("ri")
	ll, rl := sym("ll"), sym("rl")
	env := &symEnv{info: info, elemForms: true}
	// invariant: 0<=li<=ll, 0<=ri<=rl, mi = li+ri, ml = ll+rl ; loop condition mi < ml  <=>  li+ri < ll+rl
	env.base = Cube{li.scale(-1), ri.scale(-1), li.sub(ll), ri.sub(rl)}
	env.init = map[string]Val{idxOf[0]: {Lin: li}, idxOf[1]: {Lin: ri}, idxOf[2]: {Lin: li.add(ri)}}
	for i, nm := range map[int]*Lin{0: ll, 1: rl, 2: ll.add(rl)} {
		if lenKey[i] != "" {
			env.init[lenKey[i]] = Val{Lin: nm}
		}
	}
	var rankArgs []string
	env.resolve = func(e ast.Expr) (Val, bool) {
		if call, ok := e.(*ast.CallExpr); ok {
			if isBuiltinCall(info, call, "len") && len(call.Args) == 1 {
				for i, p := range params {
					if isObj(info, call.Args[0], p) {
						return Val{Lin: map[int]*Lin{0: ll, 1: rl, 2: ll.add(rl)}[i]}, true
					}
				}
			}
			// the ranker call: a call through a function-typed field of the receiver
			if se, ok := ast.Unparen(call.Fun).(*ast.SelectorExpr); ok && len(call.Args) == 2 {
				if f := selectorField(info, se); f != nil {
					if _, isSig := f.Type().Underlying().(*types.Signature); isSig {
						a0, a1 := env.eval(env.cur, call.Args[0]), env.eval(env.cur, call.Args[1])
						rankArgs = []string{a0.Opaque, a1.Opaque}
						return Val{Lin: linSym("rank")}, true
					}
				}
			}
		}
		return Val{}, false
	}
	// the loop condition holds at the top of the body (when it is a conjunction of comparisons)
	bothForm := false // `for left has more && right has more`: the tails are copied after the loop
	if loop.Cond != nil {
		st0 := &symState{vars: map[string]Val{}}
		for k2, v := range env.init {
			st0.vars[k2] = v
		}
		if cv := env.eval(st0, loop.Cond); cv.B != nil {
			if cubes := dnf(cv.B); len(cubes) == 1 {
				env.base = append(env.base, cubes[0]...)
				full := append(Cube{}, env.base...)
				if entailsCube(full, and(lt(li, ll), lt(ri, rl))) {
					bothForm = true
				}
			}
		}
	}
	paths := symRun(env, loop.Body)
	if len(env.problems) > 0 {
		r.skip(rule, construct, c.pos(fd.Pos()), "SYM cannot interpret the merge step: "+strings.Join(dedup(env.problems), "; "))
		return
	}
	lname, rname, mname := params[0].Name(), params[1].Name(), params[2].Name()
	leftElem := fmt.Sprintf("%s[%s]", lname, li)
	rightElem := fmt.Sprintf("%s[%s]", rname, ri)
	if len(rankArgs) != 2 {
		r.fail(rule, construct, c.pos(fd.Pos()), "the merge step never consults the sorter's ranker")
		return
	}
	rankConst := func(name string) int64 {
		if o := c.Pkgs["agent"].Types.Scope().Lookup(name); o != nil {
			if cst, ok := o.(*types.Const); ok {
				if v, ok := constInt(cst); ok {
					return v
				}
			}
		}
		return -1
	}
	lesser, greater := rankConst("LesserRank"), rankConst("GreaterRank")
	switch {
	case rankArgs[0] == leftElem && rankArgs[1] == rightElem:
	case rankArgs[0] == rightElem && rankArgs[1] == leftElem:
		lesser, greater = greater, lesser
	default:
		r.fail(rule, construct, c.pos(fd.Pos()), fmt.Sprintf("the ranker compares %v, required the current heads %s and %s of the two runs", rankArgs, leftElem, rightElem))
		return
	}
	rank := sym("rank")
	var viol []string
	mi := li.add(ri)
	for _, p := range paths {
		full := append(append(Cube{}, env.base...), p.Cube...)
		// the loop condition holds on entry: li+ri < ll+rl is not octagonal; it is implied on each
		// region below by li<ll or ri<rl, which the branch conditions provide.
		li2, ri2, mi2 := p.State[idxOf[0]].Lin, p.State[idxOf[1]].Lin, p.State[idxOf[2]].Lin
		if li2 == nil || ri2 == nil || mi2 == nil {
			viol = append(viol, "non-linear cursor update")
			continue
		}
		if !mi2.equal(li2.add(ri2)) {
			viol = append(viol, fmt.Sprintf("on {%s} the cursors become left=%v right=%v merged=%v: merged != left+right, so an element is skipped or written twice", p.Cube, li2, ri2, mi2))
		}
		if !mi2.equal(mi.plus(1)) {
			viol = append(viol, fmt.Sprintf("on {%s} the output cursor moves from %v to %v, required one step", p.Cube, mi, mi2))
		}
		// bounds of element accesses
		for _, a := range p.Accesses {
			if a.Kind != "index" || a.Index == nil {
				continue
			}
			var bound *Lin
			switch a.Base {
			case lname:
				bound = ll
			case rname:
				bound = rl
			default:
				continue // merged[mi]: mi < ml by the loop condition
			}
			allA := append(append(Cube{}, env.base...), a.Cube...)
			if s, d := satF(allA, or(lt(a.Index, k(0)), ge(a.Index, bound))); s || !d {
				viol = append(viol, fmt.Sprintf("the read %s[%v] at %s can be out of bounds on {%s}", a.Base, a.Index, c.pos(a.Pos), a.Cube))
			}
		}
		// what was stored
		stored := ""
		for _, cl := range p.Calls {
			if strings.HasPrefix(cl, "store "+mname+"[") {
				stored = cl
			}
			if strings.HasPrefix(cl, "copy(") {
				stored = cl
			}
		}
		bothNonEmpty := and(lt(li, ll), lt(ri, rl))
		if s, _ := satF(full, bothNonEmpty); s {
			wantStoreL := fmt.Sprintf("store %s[%s] = <%s>", mname, mi, leftElem)
			wantStoreR := fmt.Sprintf("store %s[%s] = <%s>", mname, mi, rightElem)
			tookLeft := stored == wantStoreL && li2.equal(li.plus(1)) && ri2.equal(ri)
			tookRight := stored == wantStoreR && ri2.equal(ri.plus(1)) && li2.equal(li)
			if !tookLeft && !tookRight {
				viol = append(viol, fmt.Sprintf("with both runs non-empty the step does `%s` and moves (left,right) to (%v,%v): it must store one head at merged[left+right] and advance exactly that run", stored, li2, ri2))
			}
			if s2, _ := satF(append(full, dnf(bothNonEmpty)[0]...), eq(rank, k(greater))); s2 && tookLeft {
				viol = append(viol, "when the left head ranks Greater than the right head the step takes the left one: the output is not ascending")
			}
			if s2, _ := satF(append(full, dnf(bothNonEmpty)[0]...), eq(rank, k(lesser))); s2 && tookRight {
				viol = append(viol, "when the left head ranks Lesser than the right head the step takes the right one: the output is not ascending")
			}
		}
		if s, _ := satF(full, and(lt(li, ll), ge(ri, rl))); s {
			want := fmt.Sprintf("copy(<%s[%s:]>, <%s[%s:]>)", mname, mi, lname, li)
			wantS := fmt.Sprintf("store %s[%s] = <%s>", mname, mi, leftElem)
			if !(stored == want || stored == wantS) || !li2.equal(li.plus(1)) || !ri2.equal(ri) {
				viol = append(viol, fmt.Sprintf("with the right run exhausted the step does `%s` and moves (left,right) to (%v,%v): it must take from the left run", stored, li2, ri2))
			}
		}
		if s, _ := satF(full, and(ge(li, ll), lt(ri, rl))); s {
			want := fmt.Sprintf("copy(<%s[%s:]>, <%s[%s:]>)", mname, mi, rname, ri)
			wantS := fmt.Sprintf("store %s[%s] = <%s>", mname, mi, rightElem)
			if !(stored == want || stored == wantS) || !ri2.equal(ri.plus(1)) || !li2.equal(li) {
				viol = append(viol, fmt.Sprintf("with the left run exhausted the step does `%s` and moves (left,right) to (%v,%v): it must take from the right run", stored, li2, ri2))
			}
		}
	}
	if bothForm {
		// after the loop one run is exhausted: the rest of each run must be copied behind what was merged
		envT := &symEnv{info: info, elemForms: true, resolve: env.resolve, init: env.init}
		envT.base = Cube{li.scale(-1), ri.scale(-1), li.sub(ll), ri.sub(rl)}
		tails := symRun(envT, &ast.BlockStmt{List: fd.Body.List[loopIdx+1:]})
		if len(envT.problems) > 0 || len(tails) == 0 {
			r.skip(rule, construct, c.pos(fd.Pos()), "cannot interpret what follows the merge loop: "+strings.Join(dedup(envT.problems), "; "))
			return
		}
		wantL := fmt.Sprintf("copy(<%s[%s:]>, <%s[%s:]>)", mname, mi, lname, li)
		wantR := fmt.Sprintf("copy(<%s[%s:]>, <%s[%s:]>)", mname, mi, rname, ri)
		for _, tp := range tails {
			gotL, gotR := false, false
			// the second copy may start behind what the first one copied (mi += copy(...)): one of the
			// two tails is empty, so "at or behind left+right" is the same place
			dstPrefix := fmt.Sprintf("copy(<%s[%s", mname, mi)
			for _, cl := range tp.Calls {
				if cl == wantL || (strings.HasPrefix(cl, dstPrefix) && strings.HasSuffix(cl, fmt.Sprintf(", <%s[%s:]>)", lname, li))) {
					gotL = true
				}
				if cl == wantR || (strings.HasPrefix(cl, dstPrefix) && strings.HasSuffix(cl, fmt.Sprintf(", <%s[%s:]>)", rname, ri))) {
					gotR = true
				}
			}
			// copies that are operands of other statements (mi += copy(...)) are not in the call log: look at the syntax
			for _, ts := range fd.Body.List[loopIdx+1:] {
				ast.Inspect(ts, func(x ast.Node) bool {
					call, ok := x.(*ast.CallExpr)
					if !ok || !isBuiltinCall(info, call, "copy") || len(call.Args) != 2 {
						return true
					}
					dst, ok1 := ast.Unparen(call.Args[0]).(*ast.SliceExpr)
					src, ok2 := ast.Unparen(call.Args[1]).(*ast.SliceExpr)
					if !ok1 || !ok2 || !isObj(info, dst.X, params[2]) || src.Low == nil || src.High != nil {
						return true
					}
					lowObj := identObj(info, src.Low)
					if lowObj == nil {
						return true
					}
					if isObj(info, src.X, params[0]) && objKey(lowObj) == idxOf[0] {
						gotL = true
					}
					if isObj(info, src.X, params[1]) && objKey(lowObj) == idxOf[1] {
						gotR = true
					}
					return true
				})
			}
			if !gotL {
				viol = append(viol, fmt.Sprintf("after the loop (it stops as soon as one run is exhausted) the rest of the left run is not copied to %s[left+right:]: those values are lost (calls seen: %v)", mname, tp.Calls))
			}
			if !gotR {
				viol = append(viol, fmt.Sprintf("after the loop the rest of the right run is not copied to %s[left+right:]: those values are lost (calls seen: %v)", mname, tp.Calls))
			}
		}
	}
	r.count("SYM paths", len(paths))
	if len(viol) > 0 {
		r.fail(rule, construct, c.pos(fd.Pos()), strings.Join(dedup(viol), " | "))
	} else {
		r.ok(rule, construct, c.pos(fd.Pos()), fmt.Sprintf("%d step paths: merged = left+right preserved, reads in bounds, the lesser head is taken, an exhausted run yields to the other", len(paths)))
	}
}

func checkSortDriver(c *Ctx, r *Rec, info *types.Info, fd *ast.FuncDecl, merge *types.Func) {
	construct := c.fdName(fd)
	rule := "D5-driver-bounds"
	// inner loop: the one containing the merge call
	var inner, outer *ast.ForStmt
	var call *ast.CallExpr
	for _, l := range loopsIn(fd.Body) {
		fs, ok := l.(*ast.ForStmt)
		if !ok {
			continue
		}
		inspectNoLit(fs.Body, func(x ast.Node) bool {
			if cl, ok := x.(*ast.CallExpr); ok {
				if cf := calleeOf(info, cl); cf != nil && cf.Origin() == merge {
					call = cl
					if inner == nil || containsNode(inner, fs) {
						inner = fs
					}
					if outer == nil || containsNode(fs, outer) {
						outer = fs
					}
				}
			}
			return true
		})
	}
	if inner == nil || call == nil || len(call.Args) != 3 {
		r.skip(rule, construct, c.pos(fd.Pos()), "no loop calling the merge helper with three slices")
		return
	}
	// loop variable and bound of the inner loop:  for left := 0; left < length; left += width*2
	cond, ok := ast.Unparen(inner.Cond).(*ast.BinaryExpr)
	if !ok || cond.Op != token.LSS {
		r.skip(rule, construct, c.pos(inner.Pos()), "inner loop condition is not `left < length`")
		return
	}
	leftObj, lengthObj := identObj(info, cond.X), identObj(info, cond.Y)
	if leftObj == nil || lengthObj == nil {
		r.skip(rule, construct, c.pos(inner.Pos()), "inner loop condition is not over two variables")
		return
	}
	left, length, width := sym("left"), sym("length"), sym("width")
	env := &symEnv{info: info, elemForms: true}
	env.base = Cube{left.scale(-1), left.sub(length).plus(1), width.scale(-1).plus(1)} // 0<=left<length, width>=1
	env.init = map[string]Val{objKey(leftObj): {Lin: left}, objKey(lengthObj): {Lin: length}}
	// the width variable: the outer loop's counter
	if outer != nil && outer != inner {
		if as, ok := outer.Init.(*ast.AssignStmt); ok && len(as.Lhs) == 1 {
			if o := identObj(info, as.Lhs[0]); o != nil {
				env.init[objKey(o)] = Val{Lin: width}
			}
		}
	}
	type sl struct {
		base, lo, hi string
		hiLin        *Lin
		cube         Cube
	}
	var got [][3]sl
	env.resolve = func(e ast.Expr) (Val, bool) {
		if cl, ok := e.(*ast.CallExpr); ok && cl == call {
			var row [3]sl
			for i, a := range cl.Args {
				// a run kept in a local that is defined once in the block loop, from bounds that are
				// not assigned between the definition and the call
				if id, isId := ast.Unparen(a).(*ast.Ident); isId {
					if init := initOfIn(info, inner.Body, id); init != nil {
						if ise, isSl := ast.Unparen(init).(*ast.SliceExpr); isSl {
							stable := true
							inspectNoLit(inner.Body, func(y ast.Node) bool {
								if y == nil || y.Pos() <= init.Pos() || y.Pos() >= cl.Pos() {
									return true
								}
								var tg []ast.Expr
								switch z := y.(type) {
								case *ast.AssignStmt:
									tg = z.Lhs
								case *ast.IncDecStmt:
									tg = []ast.Expr{z.X}
								}
								for _, l := range tg {
									if o := identObj(info, l); o != nil && mentionsObj(info, ise, o) {
										stable = false
									}
								}
								return stable
							})
							if stable {
								a = ise
							}
						}
					}
				}
				se, ok := ast.Unparen(a).(*ast.SliceExpr)
				if !ok || se.Low == nil || se.High == nil {
					row[i] = sl{base: "?"}
					continue
				}
				lo, hi := env.eval(env.cur, se.Low), env.eval(env.cur, se.High)
				row[i] = sl{base: exprStr(se.X), lo: lo.String(), hi: hi.String(), hiLin: hi.Lin, cube: append(append(Cube{}, env.base...), env.cur.cube...)}
				// bounds: 0 <= lo <= hi <= length
				if lo.Lin != nil && hi.Lin != nil {
					cube := append(append(Cube{}, env.base...), env.cur.cube...)
					if s, d := satF(cube, or(lt(lo.Lin, k(0)), gt(lo.Lin, hi.Lin), gt(hi.Lin, length))); s || !d {
						row[i].base += "!"
					}
				}
			}
			got = append(got, row)
			return Val{Opaque: "merge"}, true
		}
		return Val{}, false
	}
	// locals of the pass (the outer loop body before the inner loop) are evaluated first
	if outer != nil && outer != inner {
		var prefix []ast.Stmt
		for _, st := range outer.Body.List {
			if st == ast.Stmt(inner) {
				break
			}
			prefix = append(prefix, st)
		}
		if len(prefix) > 0 {
			envPre := &symEnv{info: info, init: env.init, base: env.base}
			if pp := symRun(envPre, &ast.BlockStmt{List: prefix}); len(pp) == 1 && len(envPre.problems) == 0 {
				for kk, vv := range pp[0].State {
					if _, have := env.init[kk]; !have {
						env.init[kk] = vv
					}
				}
			}
		}
	}
	// every block of a pass must be merged into the destination: no iteration may skip the merge
	{
		dg := newFG(info, fd.Body)
		isMerge := func(n ast.Node) bool { return containsNode(n, call) }
		carriesOver := func(n ast.Node) bool {
			// a block without a partner may be carried over by a plain copy instead of a merge with an empty run
			return containsNode(n, call) || nodeHas(n, func(y ast.Node) bool {
				cl, ok := y.(*ast.CallExpr)
				return ok && isBuiltinCall(info, cl, "copy")
			})
		}
		if !dg.everyIterationPasses(inner, isMerge) && dg.everyIterationPasses(inner, carriesOver) {
			r.skip(rule, construct+"/every-block", c.pos(inner.Pos()), "an iteration of the block loop carries its block over with copy() instead of the merge helper: which block goes where is not followed")
		} else if !dg.everyIterationPasses(inner, isMerge) {
			r.fail(rule, construct+"/every-block", c.pos(inner.Pos()), "an iteration of the block loop can finish without calling the merge helper: that block is not carried over to the destination array and the next pass reads stale values there")
		} else {
			early := ""
			inspectNoLit(inner.Body, func(x ast.Node) bool {
				switch b := x.(type) {
				case *ast.BranchStmt:
					if b.Tok == token.BREAK {
						// a break that belongs to the block loop itself (not to a nested loop or switch)
						nested := false
						for _, p := range pathTo(inner.Body, b) {
							switch p.(type) {
							case *ast.ForStmt, *ast.RangeStmt, *ast.SwitchStmt, *ast.SelectStmt, *ast.TypeSwitchStmt:
								nested = true
							}
						}
						if !nested {
							early = "a break at " + c.pos(b.Pos())
						}
					}
				case *ast.ReturnStmt:
					early = "a return at " + c.pos(b.Pos())
				}
				return true
			})
			if early != "" {
				r.fail(rule, construct+"/every-block", c.pos(inner.Pos()), early+" leaves the block loop before every block of the pass has been merged into the destination array: after the arrays are exchanged the next pass reads stale values")
			} else {
				r.ok(rule, construct+"/every-block", c.pos(inner.Pos()), "every iteration of the block loop reaches the merge call; the loop is not left early")
			}
		}
	}
	// interpret the inner loop body; the merge call is an expression statement
	symRun(env, inner.Body)
	if len(env.problems) > 0 {
		r.skip(rule, construct, c.pos(fd.Pos()), "SYM cannot interpret the driver: "+strings.Join(dedup(env.problems), "; "))
		return
	}
	var viol []string
	if len(got) == 0 {
		viol = append(viol, "the merge call was not reached")
	}
	for _, row := range got {
		for _, s := range row {
			if strings.Contains(s.lo, "val:") || strings.Contains(s.hi, "val:") {
				r.skip(rule, construct, c.pos(fd.Pos()), "a bound of a run is the answer of a helper that is not interpreted ("+s.lo+":"+s.hi+"): the bounds are not compared")
				return
			}
		}
	}
	for _, row := range got {
		a, b, m := row[0], row[1], row[2]
		for _, s := range row {
			if strings.HasSuffix(s.base, "!") {
				viol = append(viol, fmt.Sprintf("the slice %s[%s:%s] can violate 0 <= low <= high <= length", strings.TrimSuffix(s.base, "!"), s.lo, s.hi))
			}
		}
		ab, bb, mb := strings.TrimSuffix(a.base, "!"), strings.TrimSuffix(b.base, "!"), strings.TrimSuffix(m.base, "!")
		if ab != bb || ab == mb {
			viol = append(viol, fmt.Sprintf("the two runs must come from one array and be merged into the other (got %s, %s -> %s)", ab, bb, mb))
		}
		if a.lo != "left" {
			viol = append(viol, "the first run does not start at the block's left end: "+a.lo)
		}
		if a.hi != b.lo {
			viol = append(viol, fmt.Sprintf("the runs are not adjacent: the first ends at %s, the second starts at %s", a.hi, b.lo))
		}
		if m.lo != a.lo || m.hi != b.hi {
			viol = append(viol, fmt.Sprintf("the output window [%s:%s] is not the union [%s:%s] of the two runs", m.lo, m.hi, a.lo, b.hi))
		}
	}
	// blocks tile the array: the window ends exactly where the next block starts, or at the end
	if inner.Post != nil {
		envP := &symEnv{info: info, init: env.init, base: env.base}
		pp := symRun(envP, &ast.BlockStmt{List: []ast.Stmt{inner.Post}})
		if len(pp) == 1 && pp[0].State[objKey(leftObj)].Lin != nil {
			next := pp[0].State[objKey(leftObj)].Lin
			for _, row := range got {
				m := row[2]
				if m.hiLin == nil {
					continue
				}
				if s, d := satF(m.cube, gt(m.hiLin, next)); s || !d {
					viol = append(viol, fmt.Sprintf("the merged window ends at %s, beyond the start %v of the next block: elements of the next block are merged twice", m.hi, next))
				}
				if s, d := satF(m.cube, and(lt(m.hiLin, next), lt(m.hiLin, length))); s || !d {
					viol = append(viol, fmt.Sprintf("the merged window ends at %s, before the start %v of the next block and before the end: elements in between are never merged", m.hi, next))
				}
			}
		} else {
			viol = append(viol, "cannot evaluate the block step "+nodeText(c.Fset, inner.Post))
		}
	}
	// ping-pong discipline between the two arrays
	perPass := false // source and destination are chosen anew inside every pass (a different design)
	if len(got) > 0 && outer != nil && outer != inner {
		src, dst := strings.TrimSuffix(got[0][0].base, "!"), strings.TrimSuffix(got[0][2].base, "!")
		for _, st := range outer.Body.List {
			if lhs, _, ok := multiDefStmt(st); ok {
				for _, l := range lhs {
					if id, ok := l.(*ast.Ident); ok && info.Defs[id] != nil && (id.Name == src || id.Name == dst) {
						perPass = true
					}
				}
			}
		}
		if perPass {
			r.skip(rule, construct+"/ping-pong", c.pos(outer.Pos()), "the source and destination arrays are chosen anew at the start of every pass: the exchange discipline of the two-variable design does not apply")
		}
	}
	if len(got) > 0 && outer != nil && outer != inner && !perPass {
		src, dst := strings.TrimSuffix(got[0][0].base, "!"), strings.TrimSuffix(got[0][2].base, "!")
		swapped := false
		passStmts := outer.Body.List
		// a pass written as a while loop ends with the step of the loop's own variable
		// (width = width * 2): the exchange is the statement before it
		if n := len(passStmts); n > 1 && outer.Post == nil && outer.Cond != nil {
			if be, ok := ast.Unparen(outer.Cond).(*ast.BinaryExpr); ok {
				ctl := identObj(info, be.X)
				var tgt ast.Expr
				switch l := passStmts[n-1].(type) {
				case *ast.IncDecStmt:
					tgt = l.X
				case *ast.AssignStmt:
					if len(l.Lhs) == 1 && !isSwap(l) {
						tgt = l.Lhs[0]
					}
				}
				if ctl != nil && tgt != nil && identObj(info, tgt) == ctl {
					passStmts = passStmts[:n-1]
				}
			}
		}
		// statements of the pass that follow the exchange and mention neither array (the steps of
		// the control variables: width *= 2; unsorted = width < length) change nothing about it
		for len(passStmts) > 1 {
			last := passStmts[len(passStmts)-1]
			if as, ok := last.(*ast.AssignStmt); ok && isSwap(as) {
				break
			}
			mentionsArray := false
			ast.Inspect(last, func(x ast.Node) bool {
				if id, ok := x.(*ast.Ident); ok && (id.Name == src || id.Name == dst) {
					mentionsArray = true
				}
				if _, isCall := x.(*ast.CallExpr); isCall {
					if cl := x.(*ast.CallExpr); !info.Types[cl.Fun].IsType() {
						mentionsArray = true // a call may do anything
					}
				}
				return !mentionsArray
			})
			switch last.(type) {
			case *ast.AssignStmt, *ast.IncDecStmt:
			default:
				mentionsArray = true
			}
			if mentionsArray {
				break
			}
			passStmts = passStmts[:len(passStmts)-1]
		}
		if n := len(passStmts); n > 0 {
			if as, ok := passStmts[n-1].(*ast.AssignStmt); ok && isSwap(as) {
				a, b := exprStr(as.Lhs[0]), exprStr(as.Lhs[1])
				swapped = (a == src && b == dst) || (a == dst && b == src)
			}
		}
		if !swapped {
			viol = append(viol, fmt.Sprintf("after a pass the roles of %s (source) and %s (destination) are not exchanged as the last statement of the pass: the next pass merges stale runs", src, dst))
		}
		// names under which the two arrays are known before the passes (var source, target = scratch, values)
		alias := map[string]string{}
		ast.Inspect(fd.Body, func(x ast.Node) bool {
			if vs, ok := x.(*ast.ValueSpec); ok && len(vs.Names) == len(vs.Values) {
				for i, nm := range vs.Names {
					if id, ok := ast.Unparen(vs.Values[i]).(*ast.Ident); ok {
						alias[nm.Name] = id.Name
					}
				}
			}
			if as, ok := x.(*ast.AssignStmt); ok && as.Tok == token.DEFINE && len(as.Lhs) == len(as.Rhs) {
				for i, l := range as.Lhs {
					if id, ok := ast.Unparen(as.Rhs[i]).(*ast.Ident); ok {
						alias[exprStr(l)] = id.Name
					}
				}
			}
			return true
		})
		same := func(a, b string) bool { return a == b || alias[a] == b || alias[b] == a }
		primed, settled, copiesBefore, copiesAfter := false, false, 0, 0
		for _, st := range fd.Body.List {
			// a copy made by appending the whole input to an empty array, or by slices.Clone
			if lhs, rhs, ok := multiDefStmt(st); ok && len(lhs) == 1 && st.Pos() < outer.Pos() && same(exprStr(lhs[0]), src) {
				if cl, ok := ast.Unparen(rhs).(*ast.CallExpr); ok {
					if isBuiltinCall(info, cl, "append") && cl.Ellipsis.IsValid() && len(cl.Args) == 2 && same(exprStr(cl.Args[1]), dst) {
						copiesBefore++
						primed = true
					}
					if cf := calleeOf(info, cl); cf != nil && cf.Pkg() != nil && cf.Pkg().Path() == "slices" && cf.Name() == "Clone" && len(cl.Args) == 1 && same(exprStr(cl.Args[0]), dst) {
						copiesBefore++
						primed = true
					}
				}
			}
			var cl0 ast.Expr
			if es, ok := st.(*ast.ExprStmt); ok {
				cl0 = es.X
			} else if lhs, rhs, ok := multiDefStmt(st); ok && len(lhs) == 1 {
				cl0 = rhs // var copied = copy(buffer, values): the count is kept for an assertion
			}
			if cl0 == nil {
				continue
			}
			if cl, ok := ast.Unparen(cl0).(*ast.CallExpr); ok && isBuiltinCall(info, cl, "copy") && len(cl.Args) == 2 {
				if st.Pos() < outer.Pos() {
					copiesBefore++
					if same(exprStr(cl.Args[0]), src) && same(exprStr(cl.Args[1]), dst) {
						primed = true
					}
				}
				if st.Pos() > outer.End() {
					copiesAfter++
					if same(exprStr(cl.Args[0]), dst) && same(exprStr(cl.Args[1]), src) {
						settled = true
					}
				}
			}
		}
		if !primed && copiesBefore == 0 {
			viol = append(viol, "the source array of the first pass is not primed with a copy of the input before the passes")
		}
		// a copy after the passes that stands under a condition (say, only when the last target is
		// not the caller's own array) is a copy the rule does not judge
		ast.Inspect(fd.Body, func(x ast.Node) bool {
			if cl, ok := x.(*ast.CallExpr); ok && isBuiltinCall(info, cl, "copy") && len(cl.Args) == 2 && cl.Pos() > outer.End() {
				nested := true
				for _, st := range fd.Body.List {
					if es, ok := st.(*ast.ExprStmt); ok && es.X == ast.Expr(cl) {
						nested = false
					}
				}
				if nested {
					copiesAfter++
				}
			}
			return true
		})
		if !settled && copiesAfter == 0 {
			viol = append(viol, "after the last pass the sorted array is not copied into the other one: for an odd number of passes the caller's array keeps the previous pass")
		}
	}
	r.count("driver evaluations", len(got))
	if len(viol) > 0 {
		r.fail(rule, construct, c.pos(fd.Pos()), strings.Join(dedup(viol), " | "))
	} else {
		r.ok(rule, construct, c.pos(fd.Pos()), fmt.Sprintf("%d clamping paths: adjacent runs of one array merged into the same window of the other, 0<=left<=middle<=right<=length", len(got)))
	}
}

func checkReverse(c *Ctx, r *Rec, info *types.Info, fd *ast.FuncDecl) {
	construct := c.fdName(fd)
	params := paramObjs(info, fd)
	loops := loopsIn(fd.Body)
	if len(loops) != 1 || len(params) != 1 {
		r.skip("D6-reverse", construct, c.pos(fd.Pos()), "not a single loop over one slice")
		return
	}
	fs, ok := loops[0].(*ast.ForStmt)
	if !ok || fs.Cond == nil || fs.Init == nil || fs.Post == nil {
		r.skip("D6-reverse", construct, c.pos(fd.Pos()), "not a counting loop")
		return
	}
	env := &symEnv{info: info, elemForms: true}
	n := sym("n")
	env.base = Cube{n.scale(-1)}
	badHalf := false
	env.resolve = func(e ast.Expr) (Val, bool) {
		switch x := e.(type) {
		case *ast.CallExpr:
			if isBuiltinCall(info, x, "len") && len(x.Args) == 1 && isObj(info, x.Args[0], params[0]) {
				return Val{Lin: n}, true
			}
		case *ast.BinaryExpr:
			if x.Op == token.QUO {
				num := env.eval(env.cur, x.X)
				if tv := info.Types[x.Y]; tv.Value == nil || tv.Value.String() != "2" || num.Lin == nil || !num.Lin.equal(n) {
					badHalf = true
				}
				return Val{Lin: linSym("half")}, true
			}
		}
		return Val{}, false
	}
	var pre []ast.Stmt
	for _, s := range fd.Body.List {
		if s == ast.Stmt(fs) {
			break
		}
		pre = append(pre, s)
	}
	p0 := symRun(env, &ast.BlockStmt{List: pre})
	if len(p0) != 1 || len(env.problems) > 0 {
		r.skip("D6-reverse", construct, c.pos(fd.Pos()), "cannot interpret the prefix")
		return
	}
	// The reversal loop, in any of its forms (one index against len/2, two indices closing in):
	// every iteration swaps the positions P and Q with P + Q = len-1, P starts at 0 and advances by
	// one, and the loop runs exactly while P < Q.
	var swap *ast.AssignStmt
	nswaps, nstores := 0, 0
	ast.Inspect(fs.Body, func(x ast.Node) bool {
		if as, ok := x.(*ast.AssignStmt); ok {
			for _, l := range as.Lhs {
				if ix, ok := ast.Unparen(l).(*ast.IndexExpr); ok && isObj(info, ix.X, params[0]) {
					nstores++
				}
			}
			if isSwap(as) {
				swap = as
				nswaps++
			}
		}
		return true
	})
	if swap == nil || nswaps != 1 || nstores != 2 {
		r.skip("D6-reverse", construct, c.pos(fd.Pos()), "the loop body is not one swap of two positions of the array")
		return
	}
	// loop variables: assigned by the init statement
	initAs, ok := fs.Init.(*ast.AssignStmt)
	if !ok || len(initAs.Lhs) != len(initAs.Rhs) {
		r.skip("D6-reverse", construct, c.pos(fd.Pos()), "the loop's init statement is not a plain assignment")
		return
	}
	st1 := &symState{vars: map[string]Val{}}
	for k2, v := range p0[0].State {
		st1.vars[k2] = v
	}
	loopVars := map[string]*Lin{} // key -> initial value
	for i, l := range initAs.Lhs {
		o := identObj(info, l)
		v := env.eval(st1, initAs.Rhs[i])
		if o == nil || v.Lin == nil {
			r.skip("D6-reverse", construct, c.pos(fd.Pos()), "a loop variable does not start at an integer form")
			return
		}
		loopVars[objKey(o)] = v.Lin
	}
	// one iteration from a generic state: the loop variables are symbols of their own names
	env2 := &symEnv{info: info, elemForms: true, resolve: env.resolve}
	env2.base = Cube{n.scale(-1)}
	env2.init = map[string]Val{}
	for k2, v := range p0[0].State {
		env2.init[k2] = v
	}
	subst := map[string]*Lin{}
	for key, init := range loopVars {
		name := strings.SplitN(key, "@", 2)[0]
		env2.init[key] = Val{Lin: linSym(name)}
		subst[name] = init
	}
	preSt := &symState{vars: map[string]Val{}}
	for k2, v := range env2.init {
		preSt.vars[k2] = v
	}
	ixP := ast.Unparen(swap.Lhs[0]).(*ast.IndexExpr)
	ixQ := ast.Unparen(swap.Lhs[1]).(*ast.IndexExpr)
	// a position may be spelled out as a local of the body first (var front = ordinal - 1)
	spelled := func(e ast.Expr) ast.Expr {
		if id, ok := ast.Unparen(e).(*ast.Ident); ok {
			if init := initOfIn(info, fs.Body, id); init != nil {
				return init
			}
		}
		return e
	}
	pIdx, qIdx := spelled(ixP.Index), spelled(ixQ.Index)
	P, Q := env2.eval(preSt, pIdx).Lin, env2.eval(preSt, qIdx).Lin
	condV := env2.eval(preSt, fs.Cond)
	iter := symRun(env2, &ast.BlockStmt{List: append(append([]ast.Stmt{}, fs.Body.List...), fs.Post)})
	if P == nil || Q == nil || len(iter) != 1 || len(env2.problems) > 0 {
		r.skip("D6-reverse", construct, c.pos(fd.Pos()), "the swapped positions or the step of the loop are not integer forms")
		return
	}
	post := &symState{vars: iter[0].State}
	P2, Q2 := env2.eval(post, pIdx).Lin, env2.eval(post, qIdx).Lin
	atInit := func(l *Lin) *Lin {
		out := linConst(l.K)
		for sname, coef := range l.C {
			if v, ok := subst[sname]; ok {
				out = out.add(v.scale(coef))
			} else {
				out = out.add(linSym(sname).scale(coef))
			}
		}
		return out
	}
	var viol []string
	// which of the two is the rising index
	lowP, highQ := P, Q
	low2, high2 := P2, Q2
	if P2 != nil && Q2 != nil && Q2.equal(Q.plus(1)) {
		lowP, highQ, low2, high2 = Q, P, Q2, P2
	}
	halfForm := false
	for sname := range highQ.C {
		if sname == "half" {
			halfForm = true
		}
	}
	_ = halfForm
	sum0 := atInit(lowP.add(highQ))
	if !sum0.equal(n.plus(-1)) {
		viol = append(viol, fmt.Sprintf("the first iteration swaps the positions %v and %v: their sum is %v, required len-1 (mirror images)", atInit(lowP), atInit(highQ), sum0))
	}
	if low2 == nil || high2 == nil || !low2.add(high2).equal(lowP.add(highQ)) {
		viol = append(viol, "from one iteration to the next the two swapped positions do not stay mirror images of each other (their sum changes)")
	}
	if low2 == nil || !low2.equal(lowP.plus(1)) {
		viol = append(viol, fmt.Sprintf("the lower position moves from %v to %v in one iteration, required one step up", lowP, low2))
	}
	if !atInit(lowP).isConst() || atInit(lowP).K != 0 {
		viol = append(viol, fmt.Sprintf("the lower position starts at %v, required 0", atInit(lowP)))
	}
	// the loop runs exactly while low < high
	boundIsHalf := false
	if be, ok := ast.Unparen(fs.Cond).(*ast.BinaryExpr); ok {
		if bv := env2.eval(preSt, be.Y); bv.Lin != nil && bv.Lin.equal(sym("half")) && be.Op == token.LSS {
			if lv := env2.eval(preSt, be.X); lv.Lin != nil && lv.Lin.equal(lowP) {
				boundIsHalf = true
			}
		}
	}
	switch {
	case boundIsHalf:
		if badHalf {
			viol = append(viol, "the loop bound is not len/2: for some lengths the innermost pair is not swapped (or swapped twice)")
		}
	case condV.B != nil:
		inv := append(Cube{}, env2.base...)
		for _, cb := range dnf(eq(lowP.add(highQ), n.plus(-1))) {
			inv = append(inv, cb...)
		}
		if !badHalf {
			// half = len/2 rounded down: 2*half <= len <= 2*half + 1
			h := sym("half")
			inv = append(inv, h.scale(2).sub(n), n.sub(h.scale(2).plus(1)))
		}
		if s1, d1 := satF(inv, and(condV.B, fNotOf(lt(lowP, highQ)))); s1 || !d1 {
			viol = append(viol, "the loop can run although the lower position has reached the upper one: a pair is swapped back")
		}
		if s2, d2 := satF(inv, and(fNotOf(condV.B), lt(lowP, highQ))); s2 || !d2 {
			viol = append(viol, "the loop can stop while the lower position is still below the upper one: the innermost pair(s) stay unswapped")
		}
	default:
		r.skip("D6-reverse", construct, c.pos(fd.Pos()), "the loop condition is not a comparison of integer forms")
		return
	}
	if len(viol) > 0 {
		r.fail("D6-reverse", construct, c.pos(fd.Pos()), strings.Join(viol, " | "))
	} else {
		r.ok("D6-reverse", construct, c.pos(fd.Pos()), "swaps mirror-image positions from the outside in, exactly while the lower one is below the upper one")
	}
}

// checkSorterKeepsNothing: no method of the sorter stores the caller's Go array (or an alias of
// it: the two arrays of the merge sort change roles) in the sorter or anywhere else that outlives
// the call.  A sorter that keeps it uses the array it sorted last time as scratch space for the
// next sort and overwrites it.
func checkSorterKeepsNothing(c *Ctx, r *Rec, rule string, srt *types.Named) {
	fa := c.flow()
	ms := c.methodsOf(srt)
	n := 0
	for _, name := range sortedKeys(ms) {
		fd := ms[name]
		fn := c.funcOf(fd)
		sf := fa.byFD[fd]
		if fn == nil || sf == nil || !ast.IsExported(name) {
			continue // unexported helpers are covered through the summaries of their callers
		}
		sum := fa.sum[sf]
		sig := fn.Type().(*types.Signature)
		for i := 0; i < sig.Params().Len(); i++ {
			p := sig.Params().At(i)
			if !isGoContainer(p.Type()) {
				continue
			}
			n++
			pi := i + 1
			construct := c.fdName(fd) + "/" + p.Name()
			if pi < len(sum.retains) && sum.retains[pi] {
				r.fail(rule, construct, c.pos(fd.Pos()), "the caller's Go array is kept after the call: "+sum.whyKeep[pi]+"; the next sort with the same sorter writes into it (rankMaps sorts the keys of both maps with one sorter)")
			} else {
				r.ok(rule, construct, c.pos(fd.Pos()), "the array's storage flows to no field, closure or global")
			}
		}
	}
	if n == 0 {
		r.skip(rule, "agent."+srt.Obj().Name(), c.pos(srt.Obj().Pos()), "no method of the sorter takes a Go array")
	}
}

// storageElem: the element type V of a storage field of type ArrayLike[V] / ListLike[V].
func storageElem(t types.Type) types.Type {
	if n := derefNamed(t); n != nil && n.TypeArgs() != nil && n.TypeArgs().Len() == 1 {
		return n.TypeArgs().At(0)
	}
	return nil
}
