package main

// LP: loop-progress classification.  Every for statement must fall into one of
// a few forms; the form is the termination argument.

import (
	"fmt"
	"go/ast"
	"go/token"
	"go/types"
	"strings"

	"golang.org/x/tools/go/cfg"
)

type loopVerdict struct {
	Form   string
	OK     bool
	Undec  bool
	Detail string
}

// assignedIn reports whether the variable/field denoted by key is assigned inside n.
func assignedIn(info *types.Info, n ast.Node, key string, env *symEnv) bool {
	found := false
	ast.Inspect(n, func(x ast.Node) bool {
		switch s := x.(type) {
		case *ast.AssignStmt:
			for _, l := range s.Lhs {
				if env.lvalKey(l) == key {
					found = true
				}
			}
		case *ast.ValueSpec:
			// a definition with a value assigns too (var _, token, ok = ...)
			if len(s.Values) > 0 {
				for _, nm := range s.Names {
					if env.lvalKey(nm) == key {
						found = true
					}
				}
			}
		case *ast.IncDecStmt:
			if env.lvalKey(s.X) == key {
				found = true
			}
		case *ast.UnaryExpr:
			if s.Op == token.AND && env.lvalKey(s.X) == key {
				found = true
			}
		case *ast.RangeStmt:
			if s.Key != nil && env.lvalKey(s.Key) == key {
				found = true
			}
			if s.Value != nil && env.lvalKey(s.Value) == key {
				found = true
			}
		}
		return !found
	})
	return found
}

// invariantExpr: every variable/field mentioned by e is not assigned in body,
// and calls in e are accessors (len, conversions, Get*/Is*/Has* methods).
func invariantExpr(info *types.Info, e ast.Expr, body ast.Node, env *symEnv) (bool, string) {
	ok := true
	why := ""
	ast.Inspect(e, func(x ast.Node) bool {
		switch n := x.(type) {
		case *ast.CallExpr:
			if tv, isT := info.Types[n.Fun]; isT && tv.IsType() {
				return true
			}
			if isBuiltinCall(info, n, "len") || isBuiltinCall(info, n, "cap") {
				return true
			}
			if fn := calleeOf(info, n); fn != nil {
				nm := fn.Name()
				if strings.HasPrefix(nm, "Get") || strings.HasPrefix(nm, "Is") || nm == "Len" || nm == "NumMethod" || nm == "NumField" {
					return true
				}
			}
			ok = false
			why = "bound calls " + exprStr(n.Fun)
			return false
		case *ast.SelectorExpr:
			if key := env.lvalKey(n); key != "" && assignedIn(info, body, key, env) {
				ok = false
				why = exprStr(n) + " is assigned in the loop body"
			}
		case *ast.Ident:
			if key := env.lvalKey(n); key != "" && key != "_" {
				if _, isVar := info.Uses[n].(*types.Var); isVar && assignedIn(info, body, key, env) {
					ok = false
					why = n.Name + " is assigned in the loop body"
				}
			}
		}
		return ok
	})
	return ok, why
}

// stepOf classifies a statement as a step of the variable key:
// +1: strictly increasing, -1: strictly decreasing, 0: not a step / unknown.
func stepOf(info *types.Info, s ast.Stmt, key string, env *symEnv) int {
	constPos := func(e ast.Expr) (int, bool) { // sign of a constant or known-positive expression
		if tv, ok := info.Types[e]; ok && tv.Value != nil {
			v := tv.Value.String()
			if strings.HasPrefix(v, "-") {
				return -1, true
			}
			if v == "0" {
				return 0, true
			}
			return 1, true
		}
		return 0, false
	}
	switch s := s.(type) {
	case *ast.IncDecStmt:
		if env.lvalKey(s.X) == key {
			if s.Tok == token.INC {
				return 1
			}
			return -1
		}
	case *ast.AssignStmt:
		if len(s.Lhs) != 1 || env.lvalKey(s.Lhs[0]) != key {
			return 0
		}
		switch s.Tok {
		case token.ADD_ASSIGN, token.SUB_ASSIGN:
			sign, ok := constPos(s.Rhs[0])
			if !ok {
				sign = positiveExpr(info, s.Rhs[0], env)
			}
			if sign == 0 {
				return 0
			}
			if s.Tok == token.SUB_ASSIGN {
				sign = -sign
			}
			return sign
		case token.MUL_ASSIGN:
			if sign, ok := constPos(s.Rhs[0]); ok && sign > 0 {
				if tv := info.Types[s.Rhs[0]]; tv.Value != nil && tv.Value.String() != "1" {
					return 2 // multiplicative growth (needs positive start)
				}
			}
		case token.ASSIGN:
			// x = x + c
			if be, ok := ast.Unparen(s.Rhs[0]).(*ast.BinaryExpr); ok && (be.Op == token.ADD || be.Op == token.SUB) {
				if env.lvalKey(be.X) == key {
					if sign, ok := constPos(be.Y); ok && sign != 0 {
						if be.Op == token.SUB {
							sign = -sign
						}
						return sign
					}
				}
				if be.Op == token.ADD && env.lvalKey(be.Y) == key {
					if sign, ok := constPos(be.X); ok && sign != 0 {
						return sign
					}
				}
			}
		}
	}
	return 0
}

// positiveExpr: +1 when e is a product/sum of positive constants and variables
// that are initialised to a positive constant and only multiplied (loop width).
func positiveExpr(info *types.Info, e ast.Expr, env *symEnv) int {
	switch x := ast.Unparen(e).(type) {
	case *ast.BinaryExpr:
		if x.Op == token.MUL || x.Op == token.ADD {
			a, b := positiveExpr(info, x.X, env), positiveExpr(info, x.Y, env)
			if a > 0 && b > 0 {
				return 1
			}
		}
		return 0
	case *ast.BasicLit, *ast.Ident:
		if tv, ok := info.Types[x]; ok && tv.Value != nil {
			if v := tv.Value.String(); !strings.HasPrefix(v, "-") && v != "0" {
				return 1
			}
			return 0
		}
		if id, ok := x.(*ast.Ident); ok {
			if v, ok := info.Uses[id].(*types.Var); ok {
				if env.positiveVars != nil && env.positiveVars[v] {
					return 1
				}
			}
		}
	}
	return 0
}

// loopBlocks finds the head (condition) block and the first body block of a for statement.
func (g *FG) loopBlocks(s ast.Stmt) (head, body, done *cfg.Block) {
	for _, b := range g.G.Blocks {
		if b.Stmt != s {
			continue
		}
		switch b.Kind {
		case cfg.KindForLoop, cfg.KindRangeLoop:
			head = b
		case cfg.KindForBody, cfg.KindRangeBody:
			body = b
		case cfg.KindForDone, cfg.KindRangeDone:
			done = b
		}
	}
	if head == nil {
		head = body // for {} without condition: back edge targets the body
	}
	return
}

// everyIterationPasses: every CFG path from the start of the loop body back to
// the loop head passes a node satisfying pred.  Returns a witness path end
// otherwise.
func (g *FG) everyIterationPasses(loop ast.Stmt, pred func(n ast.Node) bool) bool {
	head, body, _ := g.loopBlocks(loop)
	if body == nil || head == nil {
		return false
	}
	var post *cfg.Block
	for _, b := range g.G.Blocks {
		if b.Stmt == loop && b.Kind == cfg.KindForPost {
			post = b
		}
	}
	if body == head {
		// for {}: reaching the body block again is the back edge
		found, _ := g.exists(pathQuery{from: point{body, 0}, stop: pred, goalBlk: func(b *cfg.Block) bool { return b == body }})
		return !found
	}
	found, _ := g.exists(pathQuery{
		from: point{body, 0},
		stop: pred,
		goalBlk: func(b *cfg.Block) bool {
			return b == head || (post != nil && b == post)
		},
	})
	return !found
}

// idlePathsInfeasible: every path from the start of the loop body back to the loop head that
// passes no node satisfying pred takes a combination of branches that cannot occur together with
// the loop condition.  Only tests over variables that nothing on such a path can change (written
// in the loop by the pred nodes alone, or not at all) are used; the others are ignored, which can
// only make a path look feasible.  Decided with the octagon; anything outside it says "no".
func (g *FG) idlePathsInfeasible(info *types.Info, loop *ast.ForStmt, pred func(n ast.Node) bool) bool {
	head, body, _ := g.loopBlocks(loop)
	if body == nil || head == nil || body == head || loop.Cond == nil {
		return false
	}
	var post *cfg.Block
	for _, b := range g.G.Blocks {
		if b.Stmt == ast.Stmt(loop) && b.Kind == cfg.KindForPost {
			post = b
		}
	}
	// variables written in the loop by something else than a pred node
	unstable := map[types.Object]bool{}
	inspectNoLit(loop.Body, func(x ast.Node) bool {
		if st, ok := x.(ast.Stmt); ok && pred(st) {
			return false
		}
		switch s := x.(type) {
		case *ast.AssignStmt:
			for _, l := range s.Lhs {
				if o := identObj(info, l); o != nil {
					unstable[o] = true
				}
			}
		case *ast.IncDecStmt:
			if o := identObj(info, s.X); o != nil {
				unstable[o] = true
			}
		case *ast.RangeStmt:
			for _, e := range []ast.Expr{s.Key, s.Value} {
				if e != nil {
					if o := identObj(info, e); o != nil {
						unstable[o] = true
					}
				}
			}
		case *ast.UnaryExpr:
			if s.Op == token.AND {
				if o := identObj(info, s.X); o != nil {
					unstable[o] = true
				}
			}
		}
		return true
	})
	for _, lit := range funcLitsIn(loop.Body) {
		ast.Inspect(lit, func(x ast.Node) bool {
			if id, ok := x.(*ast.Ident); ok {
				if o := info.Uses[id]; o != nil {
					unstable[o] = true
				}
			}
			return true
		})
	}
	usable := func(e ast.Expr) bool {
		ok := true
		ast.Inspect(e, func(x ast.Node) bool {
			switch s := x.(type) {
			case *ast.CallExpr:
				if !isBuiltinCall(info, s, "len") && !info.Types[s.Fun].IsType() {
					ok = false
				}
			case *ast.SelectorExpr, *ast.IndexExpr, *ast.StarExpr, *ast.FuncLit:
				ok = false
			case *ast.UnaryExpr:
				if s.Op == token.ARROW {
					ok = false
				}
			case *ast.Ident:
				if v, isVar := info.Uses[s].(*types.Var); isVar && (unstable[v] || v.IsField() || v.Pkg() == nil || v.Parent() == v.Pkg().Scope()) {
					ok = false
				}
			}
			return ok
		})
		return ok
	}
	if !usable(loop.Cond) {
		return false
	}
	env := &symEnv{info: info}
	st := &symState{vars: map[string]Val{}}
	cv := env.eval(st, loop.Cond)
	if cv.B == nil || len(env.problems) > 0 {
		return false
	}
	type edge struct {
		cond ast.Expr
		pol  bool
	}
	feasibleIdle, paths := false, 0
	var walk func(b *cfg.Block, idx int, conds []edge, seen map[*cfg.Block]bool)
	walk = func(b *cfg.Block, idx int, conds []edge, seen map[*cfg.Block]bool) {
		if feasibleIdle || paths > 4096 {
			return
		}
		for i := idx; i < len(b.Nodes); i++ {
			if pred(b.Nodes[i]) {
				return // this path steps
			}
		}
		c := g.branchCond(b)
		for si, s := range b.Succs {
			next := conds
			if c != nil && usable(c) {
				next = append(append([]edge{}, conds...), edge{c, si == 0})
			}
			if s == head || (post != nil && s == post) {
				// an idle round: can its branches occur together with the loop condition?
				paths++
				fs := []*F{cv.B}
				for _, e := range next {
					ev := env.eval(st, e.cond)
					if ev.B == nil {
						continue
					}
					if e.pol {
						fs = append(fs, ev.B)
					} else {
						fs = append(fs, not(ev.B))
					}
				}
				sat, decided := satF(env.base, and(fs...))
				if sat || !decided || len(env.problems) > 0 {
					feasibleIdle = true
				}
				continue
			}
			if seen[s] || len(s.Succs) == 0 && false {
				continue
			}
			// blocks outside the loop (the done block, returns) end the path without an idle round
			if !g.inLoopBody(loop, s) {
				continue
			}
			seen2 := map[*cfg.Block]bool{}
			for k := range seen {
				seen2[k] = true
			}
			seen2[s] = true
			walk(s, 0, next, seen2)
		}
	}
	walk(body, 0, nil, map[*cfg.Block]bool{body: true})
	return !feasibleIdle && paths > 0 && paths <= 4096
}

// inLoopBody: the block belongs to the statements of the loop body (by position).
func (g *FG) inLoopBody(loop *ast.ForStmt, b *cfg.Block) bool {
	if b.Stmt != nil {
		return loop.Body.Pos() <= b.Stmt.Pos() && b.Stmt.End() <= loop.Body.End()
	}
	for _, n := range b.Nodes {
		if !(loop.Body.Pos() <= n.Pos() && n.End() <= loop.Body.End()) {
			return false
		}
	}
	return true
}

// stmtOrCondContains: does CFG node n contain an AST node satisfying f (outside function literals)?
func nodeHas(n ast.Node, f func(ast.Node) bool) bool {
	found := false
	inspectNoLit(n, func(x ast.Node) bool {
		if f(x) {
			found = true
		}
		return !found
	})
	return found
}

// methodCallOn: x is a call  recv.name(...)  (or reflective recv.MethodByName("name").Call(...)) with recv the identifier object obj.
func methodCallOn(info *types.Info, x ast.Node, obj types.Object, name string) bool {
	call, ok := x.(*ast.CallExpr)
	if !ok {
		return false
	}
	sel, ok := ast.Unparen(call.Fun).(*ast.SelectorExpr)
	if !ok {
		return false
	}
	if sel.Sel.Name == name {
		if id, ok := ast.Unparen(sel.X).(*ast.Ident); ok && info.Uses[id] == obj {
			return true
		}
	}
	// reflective: recv.MethodByName("name").Call(...)
	if sel.Sel.Name == "Call" {
		if inner, ok := ast.Unparen(sel.X).(*ast.CallExpr); ok {
			if isel, ok := ast.Unparen(inner.Fun).(*ast.SelectorExpr); ok && isel.Sel.Name == "MethodByName" && len(inner.Args) == 1 {
				if tv, ok := info.Types[inner.Args[0]]; ok && tv.Value != nil && strings.Trim(tv.Value.ExactString(), "\"") == name {
					if id, ok := ast.Unparen(isel.X).(*ast.Ident); ok && info.Uses[id] == obj {
						return true
					}
				}
			}
		}
	}
	return false
}

// findHasNext looks for X.HasNext() / X.MethodByName("HasNext").Call in cond and returns X's object.
func findIterCond(info *types.Info, cond ast.Expr, name string) types.Object {
	var obj types.Object
	ast.Inspect(cond, func(x ast.Node) bool {
		call, ok := x.(*ast.CallExpr)
		if !ok {
			return true
		}
		sel, ok := ast.Unparen(call.Fun).(*ast.SelectorExpr)
		if !ok {
			return true
		}
		var recv ast.Expr
		if sel.Sel.Name == name {
			recv = sel.X
		} else if sel.Sel.Name == "Call" {
			if inner, ok := ast.Unparen(sel.X).(*ast.CallExpr); ok {
				if isel, ok := ast.Unparen(inner.Fun).(*ast.SelectorExpr); ok && isel.Sel.Name == "MethodByName" && len(inner.Args) == 1 {
					if tv, ok := info.Types[inner.Args[0]]; ok && tv.Value != nil && strings.Trim(tv.Value.ExactString(), "\"") == name {
						recv = isel.X
					}
				}
			}
		}
		if recv != nil {
			if id, ok := ast.Unparen(recv).(*ast.Ident); ok {
				obj = info.Uses[id]
				return false
			}
		}
		return true
	})
	return obj
}

type loopCtx struct {
	c            *Ctx
	info         *types.Info
	fd           *ast.FuncDecl
	g            *FG
	env          *symEnv
	condOverride map[*ast.ForStmt]ast.Expr
}

func newLoopCtx(c *Ctx, info *types.Info, fd *ast.FuncDecl, body *ast.BlockStmt) *loopCtx {
	return &loopCtx{c: c, info: info, fd: fd, g: newFG(info, body), env: &symEnv{info: info}}
}

func (lc *loopCtx) classify(loop ast.Stmt) loopVerdict {
	info, env, g := lc.info, lc.env, lc.g
	switch s := loop.(type) {
	case *ast.RangeStmt:
		t := info.Types[s.X].Type
		if t == nil {
			return loopVerdict{Form: "LP-range", Undec: true, Detail: "untyped range operand"}
		}
		switch u := t.Underlying().(type) {
		case *types.Slice, *types.Array, *types.Map, *types.Basic:
			_ = u
			return loopVerdict{Form: "LP-range", OK: true, Detail: "range over " + t.Underlying().String() + ": finite by construction"}
		case *types.Pointer:
			return loopVerdict{Form: "LP-range", OK: true, Detail: "range over array pointer"}
		}
		return loopVerdict{Form: "LP-range", Undec: true, Detail: "range over " + t.String() + " (channel or iterator function): not finite by construction"}
	case *ast.ForStmt:
		if s.Cond == nil {
			return lc.classifyBlock(s)
		}
		cond := ast.Unparen(s.Cond)
		if ov, ok := lc.condOverride[s]; ok {
			cond = ast.Unparen(ov)
		}
		// A && B: the loop ends as soon as either conjunct fails, so one conjunct in a terminating form is enough
		if be, ok := cond.(*ast.BinaryExpr); ok && be.Op == token.LAND {
			var last loopVerdict
			for _, cj := range []ast.Expr{be.X, be.Y} {
				if lc.condOverride == nil {
					lc.condOverride = map[*ast.ForStmt]ast.Expr{}
				}
				lc.condOverride[s] = cj
				v := lc.classify(s)
				delete(lc.condOverride, s)
				if v.OK {
					v.Detail = "conjunct " + exprStr(cj) + ": " + v.Detail
					return v
				}
				last = v
			}
			last.Undec = true
			last.Detail = "no conjunct of the condition is in a terminating form (" + last.Detail + ")"
			return last
		}
		// LP-token: for ok { ... ok = call }
		if id, ok := cond.(*ast.Ident); ok {
			if v, isVar := info.Uses[id].(*types.Var); isVar && isBoolType(v.Type()) {
				key := objKey(v)
				isFalse := func(e ast.Expr) bool {
					tv := info.Types[e]
					return tv.Value != nil && tv.Value.String() == "false"
				}
				reassigns := func(n ast.Node) bool {
					as, ok := n.(*ast.AssignStmt)
					if !ok {
						return false
					}
					for i, l := range as.Lhs {
						if env.lvalKey(l) == key {
							for _, r := range as.Rhs {
								if _, isCall := ast.Unparen(r).(*ast.CallExpr); isCall {
									return true
								}
							}
							if i < len(as.Rhs) && len(as.Rhs) == len(as.Lhs) && isFalse(as.Rhs[i]) {
								return true // the flag is cleared: the loop ends
							}
						}
					}
					return false
				}
				passes := g.everyIterationPasses(s, reassigns)
				if s.Post != nil && reassigns(s.Post) {
					passes = true // the post statement runs after every iteration that does not leave the loop
				}
				// every assignment to the flag inside the loop must come from a call
				plain := false
				inspectNoLit(s.Body, func(x ast.Node) bool {
					if as, ok := x.(*ast.AssignStmt); ok {
						for i, l := range as.Lhs {
							if env.lvalKey(l) == key {
								isCall := false
								if len(as.Rhs) == 1 {
									_, isCall = ast.Unparen(as.Rhs[0]).(*ast.CallExpr)
								} else if i < len(as.Rhs) {
									_, isCall = ast.Unparen(as.Rhs[i]).(*ast.CallExpr)
								}
								if !isCall && !(i < len(as.Rhs) && len(as.Rhs) == len(as.Lhs) && isFalse(as.Rhs[i])) {
									plain = true
								}
							}
						}
					}
					return true
				})
				if plain {
					return loopVerdict{Form: "LP-token", Undec: true, Detail: "the flag " + id.Name + " is also assigned a computed value (a condition written out as a flag): the loop is a `for cond` in disguise, not classified"}
				}
				if passes {
					return loopVerdict{Form: "LP-token", OK: true, Detail: "flag " + id.Name + " is re-assigned from a call on every path through the body (each true result consumed input; finiteness of the input is the callee's)"}
				}
				cleared := false
				inspectNoLit(s.Body, func(x ast.Node) bool {
					if as, ok := x.(*ast.AssignStmt); ok && len(as.Lhs) == len(as.Rhs) {
						for i, l := range as.Lhs {
							if env.lvalKey(l) == key && isFalse(as.Rhs[i]) {
								cleared = true
							}
						}
					}
					return true
				})
				if cleared {
					return loopVerdict{Form: "LP-token", Undec: true, Detail: "the flag " + id.Name + " is cleared on some paths only: the loop is a `for { ...; if done { break } }` in disguise, not classified"}
				}
				return loopVerdict{Form: "LP-token", Detail: "some path through the body does not re-assign " + id.Name + " from a call: the loop can spin"}
			}
		}
		// LP-iter
		if obj := findIterCond(info, cond, "HasNext"); obj != nil {
			key := objKey(obj)
			if assignedIn(info, s.Body, key, env) {
				return loopVerdict{Form: "LP-iter", Detail: "the iterator variable is re-assigned inside the loop"}
			}
			bad := ""
			inspectNoLit(s.Body, func(x ast.Node) bool {
				for _, m := range []string{"ToStart", "ToSlot", "GetPrevious"} {
					if methodCallOn(info, x, obj, m) {
						bad = m
					}
				}
				return bad == ""
			})
			if bad != "" {
				return loopVerdict{Form: "LP-iter", Detail: "the body moves the iterator backwards (" + bad + ")"}
			}
			passes := g.everyIterationPasses(s, func(n ast.Node) bool {
				return nodeHas(n, func(x ast.Node) bool { return methodCallOn(info, x, obj, "GetNext") })
			})
			if passes {
				return loopVerdict{Form: "LP-iter", OK: true, Detail: "every path through the body calls GetNext on the iterator tested by HasNext"}
			}
			return loopVerdict{Form: "LP-iter", Detail: "a path through the body does not advance the iterator (no GetNext): the loop does not terminate"}
		}
		// reflect MapIter:  for it.Next()
		if call, ok := cond.(*ast.CallExpr); ok {
			if fn := calleeOf(info, call); fn != nil && calleeFullName(fn) == "reflect.MapIter.Next" {
				return loopVerdict{Form: "LP-range", OK: true, Detail: "reflect.MapIter.Next: finite by construction"}
			}
		}
		// LP-count / LP-while:  x ⋈ N
		be, ok := cond.(*ast.BinaryExpr)
		if !ok {
			return loopVerdict{Form: "?", Undec: true, Detail: "unrecognised loop condition " + exprStr(cond)}
		}
		var dir int // +1: x must increase; -1: x must decrease
		var xe, ne ast.Expr
		switch be.Op {
		case token.LSS, token.LEQ, token.NEQ:
			xe, ne, dir = be.X, be.Y, 1
		case token.GTR, token.GEQ:
			xe, ne, dir = be.X, be.Y, -1
		default:
			return loopVerdict{Form: "?", Undec: true, Detail: "unrecognised loop condition " + exprStr(cond)}
		}
		key := env.lvalKey(xe)
		if key == "" {
			// maybe the variable is on the right:  N > x
			if k2 := env.lvalKey(ne); k2 != "" {
				key, xe, ne, dir = k2, ne, xe, -dir
			}
		}
		if key == "" {
			return loopVerdict{Form: "?", Undec: true, Detail: "loop condition does not test a variable: " + exprStr(cond)}
		}
		if inv, why := invariantExpr(info, ne, s.Body, env); !inv {
			if s.Post != nil {
				if inv2, _ := invariantExpr(info, ne, s.Post, env); !inv2 {
					return loopVerdict{Form: "LP-count", Detail: "loop bound is not invariant: " + why}
				}
			}
			return loopVerdict{Form: "LP-while", Undec: true, Detail: "loop bound is not invariant: " + why}
		}
		if s.Post != nil {
			// LP-count
			if assignedIn(info, s.Body, key, env) {
				return loopVerdict{Form: "LP-count", Detail: "the loop counter is assigned in the body"}
			}
			st := stepOf(info, s.Post, key, lc.envWithPositives(s))
			if st == 2 {
				// multiplicative: needs a positive start
				if lc.positiveInit(s, key) && dir > 0 {
					return loopVerdict{Form: "LP-count", OK: true, Detail: "counter starts positive and is multiplied by a constant >= 2 against an invariant upper bound"}
				}
				return loopVerdict{Form: "LP-count", Detail: "multiplicative step needs a positive start"}
			}
			if st*dir > 0 {
				if be.Op == token.NEQ {
					return loopVerdict{Form: "LP-count", Undec: true, Detail: "!= bound may be stepped over"}
				}
				return loopVerdict{Form: "LP-count", OK: true, Detail: fmt.Sprintf("counter %s steps monotonically towards the invariant bound %s", exprStr(xe), exprStr(ne))}
			}
			if st == 0 && assignedIn(info, s.Post, key, env) {
				// stepped by an amount whose sign is not known here
				return loopVerdict{Form: "LP-count", Undec: true, Detail: fmt.Sprintf("the post statement %s steps %s by an amount whose sign is not established", nodeText(lc.c.Fset, s.Post), exprStr(xe))}
			}
			return loopVerdict{Form: "LP-count", Detail: fmt.Sprintf("the post statement %s does not move %s towards the bound", nodeText(lc.c.Fset, s.Post), exprStr(xe))}
		}
		// LP-while: every path must pass a progressing step; no regressing step anywhere
		regress := false
		inspectNoLit(s.Body, func(x ast.Node) bool {
			if st, ok := x.(ast.Stmt); ok {
				switch x.(type) {
				case *ast.AssignStmt, *ast.IncDecStmt:
					touches := false
					switch a := x.(type) {
					case *ast.AssignStmt:
						for _, l := range a.Lhs {
							if env.lvalKey(l) == key {
								touches = true
							}
						}
					case *ast.IncDecStmt:
						touches = env.lvalKey(a.X) == key
					}
					if touches && stepOf(info, st, key, env)*dir <= 0 {
						regress = true
					}
				}
			}
			return true
		})
		if regress {
			return loopVerdict{Form: "LP-while", Undec: true, Detail: "the tested variable is assigned by something other than a monotone step"}
		}
		passes := g.everyIterationPasses(s, func(n ast.Node) bool {
			if st, ok := n.(ast.Stmt); ok {
				return stepOf(info, st, key, env)*dir > 0
			}
			return false
		})
		if passes {
			return loopVerdict{Form: "LP-while", OK: true, Detail: fmt.Sprintf("every path through the body steps %s towards the invariant bound %s", exprStr(xe), exprStr(ne))}
		}
		if _, isField := ast.Unparen(xe).(*ast.SelectorExpr); isField {
			// a field may be stepped inside a method called from the body: not visible here
			calls := false
			inspectNoLit(s.Body, func(x ast.Node) bool {
				if call, ok := x.(*ast.CallExpr); ok {
					if cf := calleeOf(info, call); cf != nil && lc.c.declOf(cf) != nil {
						calls = true
					}
				}
				return true
			})
			if calls {
				return loopVerdict{Form: "LP-while", Undec: true, Detail: fmt.Sprintf("the tested field %s is not stepped in the loop body itself; methods called from the body may step it", exprStr(xe))}
			}
		}
		if id, isLocal := ast.Unparen(xe).(*ast.Ident); isLocal {
			// a local may be stepped by a function literal that captures it and that the body calls
			if obj := info.Uses[id]; obj != nil && lc.fd != nil && lc.fd.Body != nil {
				captured := false
				ast.Inspect(lc.fd.Body, func(x ast.Node) bool {
					lit, ok := x.(*ast.FuncLit)
					if !ok {
						return true
					}
					ast.Inspect(lit.Body, func(y ast.Node) bool {
						switch a := y.(type) {
						case *ast.AssignStmt:
							for _, l := range a.Lhs {
								if identObj(info, l) == obj {
									captured = true
								}
							}
						case *ast.IncDecStmt:
							if identObj(info, a.X) == obj {
								captured = true
							}
						}
						return true
					})
					return true
				})
				if captured {
					return loopVerdict{Form: "LP-while", Undec: true, Detail: fmt.Sprintf("the tested variable %s is stepped inside a function literal that captures it; the calls of that literal are not followed", exprStr(xe))}
				}
			}
		}
		if g.idlePathsInfeasible(info, s, func(n ast.Node) bool {
			if st, ok := n.(ast.Stmt); ok {
				return stepOf(info, st, key, env)*dir > 0
			}
			return false
		}) {
			return loopVerdict{Form: "LP-while", OK: true, Detail: fmt.Sprintf("every round that does not step %s takes branches that cannot occur together with the loop condition", exprStr(xe))}
		}
		return loopVerdict{Form: "LP-while", Detail: fmt.Sprintf("a path through the body (for example an inner loop that runs zero times) returns to the loop head without stepping %s: the loop does not terminate", exprStr(xe))}
	}
	return loopVerdict{Form: "?", Undec: true, Detail: "unknown loop statement"}
}

func nodeText(fset *token.FileSet, n ast.Node) string {
	switch x := n.(type) {
	case *ast.IncDecStmt:
		return exprStr(x.X) + x.Tok.String()
	case *ast.AssignStmt:
		var l, r []string
		for _, e := range x.Lhs {
			l = append(l, exprStr(e))
		}
		for _, e := range x.Rhs {
			r = append(r, exprStr(e))
		}
		return strings.Join(l, ", ") + " " + x.Tok.String() + " " + strings.Join(r, ", ")
	case ast.Expr:
		return exprStr(x)
	}
	return fmt.Sprintf("%T", n)
}

// positiveInit: the init statement gives the counter a positive constant.
func (lc *loopCtx) positiveInit(s *ast.ForStmt, key string) bool {
	as, ok := s.Init.(*ast.AssignStmt)
	if !ok || len(as.Lhs) != 1 || len(as.Rhs) != 1 || lc.env.lvalKey(as.Lhs[0]) != key {
		return false
	}
	tv := lc.info.Types[as.Rhs[0]]
	return tv.Value != nil && !strings.HasPrefix(tv.Value.String(), "-") && tv.Value.String() != "0"
}

// envWithPositives marks variables of enclosing loops that are known positive
// (initialised positive and only multiplied), e.g. the merge width.
func (lc *loopCtx) envWithPositives(inner *ast.ForStmt) *symEnv {
	env := &symEnv{info: lc.info, positiveVars: map[*types.Var]bool{}}
	ast.Inspect(lc.fd.Body, func(x ast.Node) bool {
		fs, ok := x.(*ast.ForStmt)
		if !ok || fs == inner || !containsNode(fs, inner) {
			return true
		}
		if as, ok := fs.Init.(*ast.AssignStmt); ok && len(as.Lhs) == 1 {
			if id, ok := as.Lhs[0].(*ast.Ident); ok {
				if v, ok := lc.info.Defs[id].(*types.Var); ok {
					key := objKey(v)
					if lc.positiveInit(fs, key) && !assignedIn(lc.info, fs.Body, key, lc.env) && fs.Post != nil && stepOf(lc.info, fs.Post, key, lc.env) >= 1 {
						env.positiveVars[v] = true
					}
				}
			}
		}
		return true
	})
	// single-definition locals of enclosing loop bodies computed from positive constants and
	// known-positive variables by + and * (var stride = 2 * width)
	for iter := 0; iter < 2; iter++ {
		ast.Inspect(lc.fd.Body, func(x ast.Node) bool {
			lhs, rhs, ok := multiDef(x)
			if !ok || len(lhs) != 1 {
				return true
			}
			id, ok := lhs[0].(*ast.Ident)
			if !ok {
				return true
			}
			v, ok := lc.info.Defs[id].(*types.Var)
			if !ok || env.positiveVars[v] {
				return true
			}
			n := 0
			ast.Inspect(lc.fd.Body, func(y ast.Node) bool {
				switch a := y.(type) {
				case *ast.AssignStmt:
					for _, l := range a.Lhs {
						if lid, ok := l.(*ast.Ident); ok && (lc.info.Uses[lid] == v || lc.info.Defs[lid] == v) {
							n++
						}
					}
				case *ast.IncDecStmt:
					if lid, ok := a.X.(*ast.Ident); ok && lc.info.Uses[lid] == v {
						n++
					}
				case *ast.ValueSpec:
					for _, nm := range a.Names {
						if lc.info.Defs[nm] == v {
							n++
						}
					}
				}
				return true
			})
			if n == 1 && positiveExpr(lc.info, rhs, env) > 0 {
				env.positiveVars[v] = true
			}
			return true
		})
	}
	return env
}

// classifyBlock handles  for { v, ok := q.RemoveHead(); if !ok { break } ... }.
func (lc *loopCtx) classifyBlock(s *ast.ForStmt) loopVerdict {
	info := lc.info
	// find  x, ok := <recv>.RemoveHead()
	var okObj types.Object
	var callTxt string
	inspectNoLit(s.Body, func(x ast.Node) bool {
		if lhs, rhs, isDef := multiDef(x); isDef && len(lhs) == 2 {
			if call, isCall := ast.Unparen(rhs).(*ast.CallExpr); isCall {
				if fn := calleeOf(info, call); fn != nil && fn.Name() == "RemoveHead" {
					if o := identObj(info, lhs[1]); o != nil {
						okObj = o
						callTxt = exprStr(call.Fun)
					}
				}
			}
		}
		return okObj == nil
	})
	if okObj == nil {
		return loopVerdict{Form: "LP-block", Undec: true, Detail: "unconditional loop without a blocking RemoveHead read"}
	}
	// every path from body start back to the body start must pass the read, and
	// the false edge of ok must leave the loop.
	g := lc.g
	passes := g.everyIterationPasses(s, func(n ast.Node) bool {
		return nodeHas(n, func(x ast.Node) bool {
			if call, ok := x.(*ast.CallExpr); ok {
				if fn := calleeOf(info, call); fn != nil && fn.Name() == "RemoveHead" {
					return true
				}
			}
			return false
		})
	})
	if !passes {
		return loopVerdict{Form: "LP-block", Detail: "an iteration may skip the blocking read"}
	}
	// the loop must be left when ok is false: no path from a false-ok edge back to the head
	_, body, _ := g.loopBlocks(s)
	leak, _ := g.exists(pathQuery{
		from: point{body, 0},
		edgeOK: func(cond ast.Expr, pol bool) bool {
			// forbid taking the edge on which ok is known true
			c := ast.Unparen(cond)
			neg := false
			if u, ok := c.(*ast.UnaryExpr); ok && u.Op == token.NOT {
				neg = true
				c = ast.Unparen(u.X)
			}
			if id, ok := c.(*ast.Ident); ok && info.Uses[id] == okObj {
				okTrue := pol != neg
				return !okTrue
			}
			return true
		},
		goalBlk: func(b *cfg.Block) bool { return b == body },
	})
	// the search above only follows edges where ok is false (or unrelated); reaching the body again means the loop continues after a closed read
	tested := false
	inspectNoLit(s.Body, func(x ast.Node) bool {
		if is, ok := x.(*ast.IfStmt); ok {
			if nodeHas(is.Cond, func(y ast.Node) bool { id, ok := y.(*ast.Ident); return ok && info.Uses[id] == okObj }) {
				tested = true
			}
		}
		// the same test written as a case of a tagless switch
		if sw, ok := x.(*ast.SwitchStmt); ok && sw.Tag == nil {
			for _, cl := range sw.Body.List {
				for _, e := range cl.(*ast.CaseClause).List {
					if nodeHas(e, func(y ast.Node) bool { id, ok := y.(*ast.Ident); return ok && info.Uses[id] == okObj }) {
						tested = true
					}
				}
			}
		}
		return true
	})
	if !tested || leak {
		return loopVerdict{Form: "LP-block", Detail: "the loop is not left when " + callTxt + " reports a closed and drained queue"}
	}
	return loopVerdict{Form: "LP-block", OK: true, Detail: "each iteration blocks in " + callTxt + " and the loop is left on !ok (termination depends on the input being closed: not decided)"}
}

// checkLoops classifies every loop of fd (including those in function literals).
func checkLoops(c *Ctx, r *Rec, rule string, fd *ast.FuncDecl, exempt map[string]string) {
	info := c.infoFor(fd)
	bodies := []*ast.BlockStmt{fd.Body}
	ast.Inspect(fd.Body, func(x ast.Node) bool {
		if fl, ok := x.(*ast.FuncLit); ok {
			bodies = append(bodies, fl.Body)
		}
		return true
	})
	name := c.fdName(fd)
	idx := 0
	for bi, body := range bodies {
		lc := newLoopCtx(c, info, fd, body)
		for _, loop := range loopsIn(body) {
			idx++
			construct := fmt.Sprintf("%s/loop#%d", name, idx)
			if bi > 0 {
				construct = fmt.Sprintf("%s/func-literal/loop#%d", name, idx)
			}
			v := lc.classify(loop)
			pos := c.pos(loop.Pos())
			if why, ok := exempt[construct]; ok && !v.OK {
				r.ok(rule, construct, pos, "LP-exempt: "+why+" (classifier said: "+v.Form+" "+v.Detail+")")
				continue
			}
			switch {
			case v.OK:
				r.ok(rule, construct, pos, v.Form+": "+v.Detail)
			case v.Undec:
				r.skip(rule, construct, pos, "loop in a form the progress classifier does not understand ("+v.Form+": "+v.Detail+"): termination not decided")
			default:
				r.fail(rule, construct, pos, v.Form+": "+v.Detail)
			}
			r.count("loops", 1)
		}
	}
}
