package main

// A guard that admits the capacity.  A bounded collection (a stack panics, a queue blocks when an
// AddValue finds it full) that is created with MakeWithCapacity(E) and filled under a guard that
// compares its own GetSize() with the same E is meant never to be found full: the guard has to
// turn away size == E.  When the conditions on the way to the AddValue only say size <= E
// (`if size > E { fail }`), the guard is off by one and the AddValue at size == E is the panic
// (or the deadlock) the guard was written to prevent.

import (
	"fmt"
	"go/ast"
	"go/token"
	"go/types"
)

func checkGuardExcludesCapacity(c *Ctx, r *Rec, rule, role string) {
	info := c.info(role)
	if info == nil {
		return
	}
	// fields created with MakeWithCapacity(E)
	capOf := map[*types.Var]string{}
	for _, fd := range c.allFuncDecls(role) {
		ast.Inspect(fd.Body, func(x ast.Node) bool {
			as, ok := x.(*ast.AssignStmt)
			if !ok || len(as.Lhs) != 1 || len(as.Rhs) != 1 {
				return true
			}
			f := selectorField(info, as.Lhs[0])
			if f == nil {
				return true
			}
			if _, mname, call, ok := methodCall(ast.Unparen(as.Rhs[0])); ok && mname == "MakeWithCapacity" && len(call.Args) == 1 {
				capOf[f] = exprStr(call.Args[0])
			}
			return true
		})
	}
	sites, bad := 0, 0
	for _, fd := range c.allFuncDecls(role) {
		var g *FG
		ast.Inspect(fd.Body, func(x ast.Node) bool {
			rx, mname, call, ok := methodCall(x)
			if !ok || mname != "AddValue" {
				return true
			}
			f := selectorField(info, rx)
			capText, known := capOf[f]
			if f == nil || !known {
				return true
			}
			if g == nil {
				g = newFG(info, fd.Body)
			}
			pt, ok := g.locate(call)
			if !ok {
				return true
			}
			var atoms []condAtom
			for _, ec := range g.edgeConds(pt) {
				atomsOf(ec.cond, ec.polarity, &atoms)
			}
			isSize := func(e ast.Expr) bool {
				e = ast.Unparen(e)
				for {
					cv, ok := e.(*ast.CallExpr)
					if ok && len(cv.Args) == 1 {
						if tv, ok := info.Types[cv.Fun]; ok && tv.IsType() {
							e = ast.Unparen(cv.Args[0])
							continue
						}
					}
					break
				}
				srx, sname, scall, ok := methodCall(e)
				return ok && sname == "GetSize" && len(scall.Args) == 0 && selectorField(info, srx) == f
			}
			isCap := func(e ast.Expr) bool {
				e = ast.Unparen(e)
				if exprStr(e) == capText {
					return true
				}
				if cv, ok := e.(*ast.CallExpr); ok && len(cv.Args) == 1 {
					if tv, ok := info.Types[cv.Fun]; ok && tv.IsType() {
						return exprStr(cv.Args[0]) == capText
					}
				}
				return false
			}
			strict, weak := false, false
			var weakAt ast.Expr
			for _, a := range atoms {
				be, ok := a.e.(*ast.BinaryExpr)
				if !ok {
					continue
				}
				op := be.Op
				switch {
				case isSize(be.X) && isCap(be.Y):
				case isSize(be.Y) && isCap(be.X):
					switch op {
					case token.LSS:
						op = token.GTR
					case token.LEQ:
						op = token.GEQ
					case token.GTR:
						op = token.LSS
					case token.GEQ:
						op = token.LEQ
					}
				default:
					continue
				}
				if !a.true {
					switch op {
					case token.LSS:
						op = token.GEQ
					case token.LEQ:
						op = token.GTR
					case token.GTR:
						op = token.LEQ
					case token.GEQ:
						op = token.LSS
					case token.EQL:
						op = token.NEQ
					case token.NEQ:
						op = token.EQL
					}
				}
				switch op {
				case token.LSS, token.NEQ:
					strict = true
				case token.LEQ:
					weak, weakAt = true, a.e
				}
			}
			if strict || weak {
				sites++
			}
			if weak && !strict {
				bad++
				r.fail(rule, c.fdName(fd)+"/"+exprStr(call), c.pos(call.Pos()), fmt.Sprintf("%s was created with MakeWithCapacity(%s) and the AddValue here is guarded by %s, which still admits a size equal to the capacity: the guard is off by one, and at that size AddValue is the panic (a stack) or the wait that never ends (a queue) that the guard was written to replace by a proper answer", f.Name(), capText, exprStr(weakAt)))
			}
			return true
		})
	}
	if bad == 0 {
		r.ok(rule, role+"/capacity-guards", "", fmt.Sprintf("%d AddValue calls on bounded collections stand under a comparison of the size with the capacity; each turns the full collection away", sites))
	}
}
