package main

// C03 — Catalog is an insertion-ordered map whose key index and order never diverge.

import (
	"fmt"
	"go/ast"
	"go/token"
	"go/types"
	"strings"

	"golang.org/x/tools/go/cfg"
)

func init() {
	register(&propInfo{
		ID:      "C03",
		Engines: "EFFECT (paired effects on the key map and the association list), PATH (same control region), provenance on the syntax tree",
		Decided: "D1 in every method of the catalog the effects on the key map (insert, delete, reset) and on the association list (append, remove, reset) occur pairwise in the same control region, the association appended is the very association inserted under the key, built from the method's own key and value, the in-place update goes to the association found under the same key, and the key deleted is the parameter whose association is removed; the sorting/reversing/shuffling methods and all readers do not touch the key map; " +
			"D2 the list position handed to RemoveValue is not obtained from the list's collator-based search (structurally equal associations under distinct keys exist for pointer keys) but from the key's identity; " +
			"D3 all loops of the catalog type and class are in terminating forms.",
		NotDecided: "that GetValue/GetValues/GetKeys/iteration agree after arbitrary histories (follows from D1 only together with the list's element placement, C01 not-decided part).",
		Run:        runC03,
	})
}

func runC03(c *Ctx, r *Rec) {
	cat := c.mustImpl(r, "bind", "collection", "CatalogLike")
	cls := c.mustImpl(r, "bind", "collection", "CatalogClassLike")
	if cat == nil || cls == nil {
		return
	}
	info := c.info("collection")
	listF := c.fieldOfIface(cat, "collection", "ListLike")
	var mapF *types.Var
	if st := structOf(cat); st != nil {
		for i := 0; i < st.NumFields(); i++ {
			if _, ok := st.Field(i).Type().Underlying().(*types.Map); ok {
				mapF = st.Field(i)
			}
		}
	}
	if listF == nil || mapF == nil {
		r.undecided("bind", "collection."+cat.Obj().Name(), "", "cannot bind the association list (ListLike) and key map fields")
		return
	}
	ms := c.methodsOf(cat)

	type eff struct {
		kind string // map-insert, map-delete, map-reset, list-append, list-remove, list-reset, list-other
		node ast.Node
		stmt ast.Stmt
		args []ast.Expr
	}
	effectsOf := func(fd *ast.FuncDecl) []eff {
		var out []eff
		var stmtOf func(n ast.Node) ast.Stmt
		stmtOf = func(n ast.Node) ast.Stmt {
			chain := pathTo(fd.Body, n)
			for i := len(chain) - 1; i >= 0; i-- {
				if s, ok := chain[i].(ast.Stmt); ok {
					if _, isBlock := s.(*ast.BlockStmt); !isBlock {
						return s
					}
				}
			}
			return nil
		}
		ast.Inspect(fd.Body, func(x ast.Node) bool {
			switch s := x.(type) {
			case *ast.AssignStmt:
				for i, l := range s.Lhs {
					if ix, ok := ast.Unparen(l).(*ast.IndexExpr); ok && selectorField(info, ix.X) == mapF && len(s.Lhs) == len(s.Rhs) {
						out = append(out, eff{"map-insert", s, s, []ast.Expr{ix.Index, s.Rhs[i]}})
					}
					if selectorField(info, l) == mapF {
						out = append(out, eff{"map-reset", s, s, nil})
					}
					if selectorField(info, l) == listF {
						out = append(out, eff{"list-reset", s, s, nil})
					}
				}
			case *ast.CallExpr:
				if isBuiltinCall(info, s, "delete") && len(s.Args) == 2 && selectorField(info, s.Args[0]) == mapF {
					out = append(out, eff{"map-delete", s, stmtOf(s), []ast.Expr{s.Args[1]}})
				}
				if isBuiltinCall(info, s, "clear") && len(s.Args) == 1 && selectorField(info, s.Args[0]) == mapF {
					out = append(out, eff{"map-reset", s, stmtOf(s), nil})
				}
				if rx, mname, call, ok := methodCall(s); ok && selectorField(info, rx) == listF && listMutators[mname] {
					kind := "list-other:" + mname
					switch mname {
					case "AppendValue":
						kind = "list-append"
					case "RemoveValue":
						kind = "list-remove"
					case "RemoveAll":
						kind = "list-reset"
					case "SortValues", "SortValuesWithRanker", "ReverseValues", "ShuffleValues":
						kind = "list-reorder"
					}
					out = append(out, eff{kind, s, stmtOf(s), call.Args})
				}
			}
			return true
		})
		return out
	}
	sameRegion := func(fd *ast.FuncDecl, a, b ast.Stmt) bool {
		// both statements are members of the same statement list, with no return/panic/branch between them
		var list []ast.Stmt
		ast.Inspect(fd.Body, func(x ast.Node) bool {
			var l []ast.Stmt
			switch s := x.(type) {
			case *ast.BlockStmt:
				l = s.List
			case *ast.CaseClause:
				l = s.Body
			}
			ia, ib := -1, -1
			for i, s := range l {
				if s == a {
					ia = i
				}
				if s == b {
					ib = i
				}
			}
			if ia >= 0 && ib >= 0 {
				list = l
				if ia > ib {
					ia, ib = ib, ia
				}
				list = l[ia : ib+1]
			}
			return true
		})
		if list == nil {
			return false
		}
		for _, s := range list {
			switch s.(type) {
			case *ast.ReturnStmt, *ast.BranchStmt:
				return false
			}
		}
		return true
	}

	checkReceiverWrites(c, r, "D1-receiver-writes-persist", cat)
	for _, name := range sortedKeys(ms) {
		fd := ms[name]
		effs := effectsOf(fd)
		if len(effs) == 0 {
			continue
		}
		construct := c.fdName(fd)
		count := map[string][]eff{}
		for _, e := range effs {
			count[e.kind] = append(count[e.kind], e)
		}
		params := paramObjs(info, fd)
		bad := ""
		pair := func(a, b string) {
			if len(count[a]) != len(count[b]) {
				bad = fmt.Sprintf("%d %s but %d %s: the key index and the ordered list diverge", len(count[a]), a, len(count[b]), b)
				return
			}
			for i := range count[a] {
				if !sameRegion(fd, count[a][i].stmt, count[b][i].stmt) {
					bad = fmt.Sprintf("the %s at %s and the %s at %s are not in the same control region: one can happen without the other", a, c.pos(count[a][i].node.Pos()), b, c.pos(count[b][i].node.Pos()))
				}
			}
		}
		pair("map-insert", "list-append")
		pair("map-reset", "list-reset")
		// delete/remove: deleting an absent key is a no-op, so the delete may also run where the
		// key was not found; what must hold is (a) every path that removes from the list deletes
		// the key before it returns, and (b) no path on which the key was found deletes it without
		// removing its association from the list.
		if len(count["map-delete"]) != len(count["list-remove"]) {
			bad = fmt.Sprintf("%d deletions from the key index but %d removals from the list: the two structures diverge", len(count["map-delete"]), len(count["list-remove"]))
		} else if len(count["map-delete"]) == 1 {
			del, rem := count["map-delete"][0], count["list-remove"][0]
			g := newFG(info, fd.Body)
			var okObj types.Object
			ast.Inspect(fd.Body, func(x ast.Node) bool {
				if lhs, rhs, ok := multiDef(x); ok && len(lhs) == 2 {
					if ix, ok := ast.Unparen(rhs).(*ast.IndexExpr); ok && selectorField(info, ix.X) == mapF {
						okObj = identObj(info, lhs[1])
					}
				}
				return true
			})
			if pt, ok := g.after(rem.node); ok {
				leak, _ := g.exists(pathQuery{from: pt,
					stop:     func(n ast.Node) bool { return containsNode(n, del.node) },
					goalExit: func(kind int, _ *cfg.Block) bool { return kind == exitReturn }})
				before, _ := g.exists(pathQuery{from: point{g.entry(), 0},
					stop:     func(n ast.Node) bool { return containsNode(n, del.node) && !containsNode(n, rem.node) },
					goalNode: func(n ast.Node) bool { return containsNode(n, rem.node) }})
				if leak && before {
					bad = "a path removes the association from the list and returns without deleting its key from the index"
				}
			}
			foundEdge := func(cond ast.Expr, pol bool) bool {
				cd := ast.Unparen(cond)
				if u, ok := cd.(*ast.UnaryExpr); ok && u.Op == token.NOT {
					cd, pol = ast.Unparen(u.X), !pol
				}
				if id, ok := cd.(*ast.Ident); ok && okObj != nil && info.Uses[id] == okObj {
					return pol // only follow the edge on which the key was found
				}
				return true
			}
			found, _ := g.exists(pathQuery{from: point{g.entry(), 0},
				stop:     func(n ast.Node) bool { return containsNode(n, rem.node) },
				goalNode: func(n ast.Node) bool { return containsNode(n, del.node) && !containsNode(n, rem.node) },
				edgeOK:   foundEdge})
			if found {
				if pt, ok := g.after(del.node); ok {
					found, _ = g.exists(pathQuery{from: pt,
						stop:     func(n ast.Node) bool { return containsNode(n, rem.node) },
						goalExit: func(kind int, _ *cfg.Block) bool { return kind == exitReturn },
						edgeOK:   foundEdge})
				}
			}
			if found && bad == "" {
				bad = "a path on which the key is present deletes it from the index without removing its association from the list"
			}
		}
		for kind := range count {
			if strings.HasPrefix(kind, "list-other") {
				bad = "the association list is mutated through " + strings.TrimPrefix(kind, "list-other:") + ", which has no counterpart on the key map"
			}
		}
		if len(count["list-reorder"]) > 0 && (len(count["map-insert"])+len(count["map-delete"])+len(count["map-reset"]) > 0) {
			bad = "a reordering method also changes the key map"
		}
		// identity of the coupled values
		if bad == "" {
			for i, ins := range count["map-insert"] {
				app := count["list-append"][i]
				ao, bo := identObj(info, ins.args[1]), identObj(info, app.args[0])
				if ao == nil || ao != bo {
					bad = "the association stored under the key is not the association appended to the list"
					break
				}
				// built from the method's key and value:  X = Association.Make(key, value)
				init := resolveInit(info, fd, ins.args[1])
				_, mname, call, ok := methodCall(init)
				if !ok || mname != "Make" || len(call.Args) != 2 || len(params) < 2 || !isObj(info, call.Args[0], params[0]) || !isObj(info, call.Args[1], params[1]) {
					// the variable may be assigned (not declared) in the branch
					found := false
					ast.Inspect(fd.Body, func(x ast.Node) bool {
						if as, ok := x.(*ast.AssignStmt); ok && len(as.Lhs) == 1 && len(as.Rhs) == 1 && identObj(info, as.Lhs[0]) == ao {
							if _, mn, cl, ok := methodCall(ast.Unparen(as.Rhs[0])); ok && mn == "Make" && len(cl.Args) == 2 && len(params) >= 2 && isObj(info, cl.Args[0], params[0]) && isObj(info, cl.Args[1], params[1]) {
								found = true
							}
						}
						return true
					})
					if !found {
						bad = "the new association is not built from the method's own key and value"
						break
					}
				}
				if len(params) == 0 || !isObj(info, ins.args[0], params[0]) {
					bad = "the association is indexed under something other than the method's key"
				}
			}
			for _, del := range count["map-delete"] {
				if len(params) == 0 || !isObj(info, del.args[0], params[0]) {
					bad = "the key deleted from the index is not the method's key parameter"
				}
			}
		}
		r.check(bad == "", "D1-coupled-updates", construct, c.pos(fd.Pos()), fmt.Sprintf("%d effect(s), pairwise coupled in one control region", len(effs)), bad)
	}
	r.floor("D1-coupled-updates", 1)

	// in-place update of SetValue goes to the association found under the same key
	if fd := ms["SetValue"]; fd != nil {
		params := paramObjs(info, fd)
		bad := "no in-place update of an existing association"
		ast.Inspect(fd.Body, func(x ast.Node) bool {
			if rx, mname, call, ok := methodCall(x); ok && mname == "SetValue" && len(call.Args) == 1 && len(params) == 2 {
				if ao := identObj(info, rx); ao != nil {
					// defined as  a, exists := v.keys_[key]
					ast.Inspect(fd.Body, func(y ast.Node) bool {
						if lhs, rhs, ok := multiDef(y); ok && len(lhs) >= 1 && identObj(info, lhs[0]) == ao {
							if ix, ok := ast.Unparen(rhs).(*ast.IndexExpr); ok && selectorField(info, ix.X) == mapF && isObj(info, ix.Index, params[0]) {
								if isObj(info, call.Args[0], params[1]) {
									bad = ""
								} else {
									bad = "the in-place update does not store the method's value parameter"
								}
							}
						}
						return true
					})
				}
			}
			return true
		})
		r.check(bad == "", "D1-update-in-place", c.fdName(fd), c.pos(fd.Pos()), "an existing key updates the association found under that key with the new value (position unchanged)", bad)
	}
	// GetValue reads the association under the key
	if fd := ms["GetValue"]; fd != nil {
		params := paramObjs(info, fd)
		okRead := false
		ast.Inspect(fd.Body, func(x ast.Node) bool {
			if ix, ok := x.(*ast.IndexExpr); ok && selectorField(info, ix.X) == mapF && len(params) == 1 && isObj(info, ix.Index, params[0]) {
				okRead = true
			}
			return true
		})
		r.check(okRead, "D1-update-in-place", c.fdName(fd), c.pos(fd.Pos()), "reads the key index under its key parameter", "GetValue does not look its key parameter up in the key index")
	}

	// ---- D2 identity lookup
	if fd := ms["RemoveValue"]; fd != nil {
		construct := c.fdName(fd)
		// scope: RemoveValue and the private methods of the catalog it reaches through its receiver
		cg := c.sameTypeCallGraph(cat)
		scope := []*ast.FuncDecl{fd}
		seen := map[string]bool{"RemoveValue": true}
		for work := []string{"RemoveValue"}; len(work) > 0; {
			n := work[0]
			work = work[1:]
			for callee := range cg[n] {
				if !seen[callee] && !ast.IsExported(callee) && ms[callee] != nil {
					seen[callee] = true
					scope = append(scope, ms[callee])
					work = append(work, callee)
				}
			}
		}
		var rem *ast.CallExpr
		usesSearch, cmp := false, false
		for _, sfd := range scope {
			sparams := paramObjs(info, sfd)
			inspectNoLit(sfd.Body, func(x ast.Node) bool {
				if rx, mname, call, ok := methodCall(x); ok && selectorField(info, rx) == listF {
					if mname == "RemoveValue" {
						rem = call
					}
					if searchableNames[mname] {
						usesSearch = true
					}
				}
				if be, ok := x.(*ast.BinaryExpr); ok && be.Op.String() == "==" {
					l, rr := ast.Unparen(be.X), ast.Unparen(be.Y)
					for _, pr := range [][2]ast.Expr{{l, rr}, {rr, l}} {
						if _, mname, _, ok := methodCall(pr[0]); ok && mname == "GetKey" {
							for _, sp := range sparams {
								if isObj(info, pr[1], sp) {
									cmp = true
								}
							}
						}
					}
				}
				return true
			})
		}
		bad := ""
		switch {
		case rem == nil:
			bad = "skip: RemoveValue does not call the association list's RemoveValue: the identity rule is bound to the list-backed design"
		case usesSearch:
			bad = "the list position is found with the list's collator-based search (structural equality): with pointer keys a != b, *a == *b and equal values, RemoveValue(b) removes a's list entry and b's index entry"
		case len(scope) == 1 && func() bool {
			deps := depClosure(info, fd)
			params := paramObjs(info, fd)
			idxObj := identObj(info, rem.Args[0])
			return idxObj != nil && len(params) == 1 && !deps[idxObj][params[0]]
		}():
			bad = "the list position removed does not depend on the key parameter"
		case !cmp:
			bad = "skip: the position is not located by a visible == comparison of the associations' keys with the key parameter"
		}
		r.verdict("D2-identity-lookup", construct, c.pos(fd.Pos()), "the removed position is located by key identity (==, the identity the key index uses)", bad)
	}
	r.floor("D2-identity-lookup", 1)

	// ---- D1b bulk operations are folds of the single-key operations
	for _, b := range [][2]string{{"GetValues", "GetValue"}, {"RemoveValues", "RemoveValue"}} {
		if fd := ms[b[0]]; fd != nil {
			bad := bulkFold(c, info, fd, b[1], true)
			r.verdict("D1-bulk-fold", c.fdName(fd), c.pos(fd.Pos()), "applies "+b[1]+" to every requested key, in order", bad)
		}
	}
	for _, nm := range []string{"MakeFromSequence", "MakeFromMap"} {
		if fd := c.methodsOf(cls)[nm]; fd != nil {
			bad := bulkFold(c, info, fd, "SetValue", false)
			r.verdict("D1-bulk-fold", c.fdName(fd), c.pos(fd.Pos()), "sets every entry of the source", bad)
		}
	}
	if fd := ms["GetKeys"]; fd != nil {
		loops := loopsIn(fd.Body)
		bad := "skip: GetKeys is not one loop over the association list"
		if len(loops) == 1 {
			_, bad = coveringLoop(c, info, loops[0])
		}
		r.verdict("D1-bulk-fold", c.fdName(fd), c.pos(fd.Pos()), "visits every association", bad)
	}
	r.floor("D1-bulk-fold", 4)
	// an existing key is replaced in this catalog only: association cells are never shared between catalogs
	checkCellsNotShared(c, r, "D1-cells-not-shared")

	// ---- D3 loops
	for _, n := range []*types.Named{cat, cls} {
		m := c.methodsOf(n)
		for _, name := range sortedKeys(m) {
			checkLoops(c, r, "D3-loop-progress", m[name], nil)
		}
	}
	r.floor("D3-loop-progress", 1)
}
