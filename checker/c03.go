package main

// C03 — Catalog is an insertion-ordered map whose key index and order never diverge.

import (
	"fmt"
	"go/ast"
	"go/token"
	"go/types"
	"strings"

	"golang.org/x/tools/go/cfg"
)

func init() {
	register(&propInfo{
		ID:      "C03",
		Engines: "EFFECT (paired effects on the key map and the association list), PATH (same control region), provenance on the syntax tree",
		Decided: "D1 in every method of the catalog the effects on the key map (insert, delete, reset) and on the association list (append, remove, reset) occur pairwise in the same control region, the association appended is the very association inserted under the key, built from the method's own key and value, the in-place update goes to the association found under the same key, and the key deleted is the parameter whose association is removed; the sorting/reversing/shuffling methods and all readers do not touch the key map; " +
			"D2 the list position handed to RemoveValue is not obtained from the list's collator-based search (structurally equal associations under distinct keys exist for pointer keys) but from the key's identity; " +
			"D3 all loops of the catalog type and class are in terminating forms." +
			" Round 7: a Go map that is ranged is not read back by key (NaN keys); no dynamic == on keys or values; RemoveAll clears on every path not selected by an emptiness test." +
			" Rounds 8-9: readers assign no field; no dynamic == in the association's file either.",
		NotDecided: "that GetValue/GetValues/GetKeys/iteration agree after arbitrary histories (follows from D1 only together with the list's element placement, C01 not-decided part).",
		Run:        runC03,
	})
}

func runC03(c *Ctx, r *Rec) {
	cat := c.mustImpl(r, "bind", "collection", "CatalogLike")
	cls := c.mustImpl(r, "bind", "collection", "CatalogClassLike")
	if cat == nil || cls == nil {
		return
	}
	info := c.info("collection")
	listF := c.fieldOfIface(cat, "collection", "ListLike")
	var mapF *types.Var
	if st := structOf(cat); st != nil {
		for _, f := range flatFields(cat) {
			if _, ok := f.Type().Underlying().(*types.Map); ok {
				mapF = f
			}
		}
	}
	if listF == nil || mapF == nil {
		r.skip("bind", "collection."+cat.Obj().Name(), "", "cannot bind the association list (ListLike) and key map fields")
		return
	}
	ms := c.methodsOf(cat)
	shapeLints(c, r, append(fileFuncs(c, "collection", cat, cls), moduleFuncsReturning(c, "CatalogLike")...))

	type eff struct {
		kind string // map-insert, map-delete, map-reset, list-append, list-remove, list-reset, list-other
		node ast.Node
		stmt ast.Stmt
		args []ast.Expr
	}
	// effects of fd on the two structures.  The effects of unexported helpers (methods of the
	// catalog, methods of a named type of the key index such as insert/drop) are attributed to
	// the statement of fd that calls them, with the helper's parameters replaced by the arguments.
	var effectsIn func(root *ast.FuncDecl, fd *ast.FuncDecl, isMap func(e ast.Expr) bool, anchor ast.Node, subst map[types.Object]ast.Expr, depth int) []eff
	opaqueCalls := map[*ast.FuncDecl]bool{} // functions whose effects may hide in calls that are not followed
	effectsIn = func(root *ast.FuncDecl, fd *ast.FuncDecl, isMap func(e ast.Expr) bool, anchor ast.Node, subst map[types.Object]ast.Expr, depth int) []eff {
		var out []eff
		var stmtOf func(n ast.Node) ast.Stmt
		stmtOf = func(n ast.Node) ast.Stmt {
			if anchor != nil {
				n = anchor
			}
			chain := pathTo(root.Body, n)
			for i := len(chain) - 1; i >= 0; i-- {
				if s, ok := chain[i].(ast.Stmt); ok {
					if _, isBlock := s.(*ast.BlockStmt); !isBlock {
						return s
					}
				}
			}
			return nil
		}
		at := func(n ast.Node) ast.Node {
			if anchor != nil {
				return anchor
			}
			return n
		}
		sub := func(es []ast.Expr) []ast.Expr {
			var out []ast.Expr
			for _, e := range es {
				if o := identObj(info, e); o != nil && subst != nil {
					if r, ok := subst[o]; ok {
						out = append(out, r)
						continue
					}
				}
				// P.GetKey() / P.GetValue() of a substituted parameter P
				if rx, mname, call, ok := methodCall(ast.Unparen(e)); ok && len(call.Args) == 0 && subst != nil {
					if o := identObj(info, rx); o != nil {
						if r, ok := subst[o]; ok {
							out = append(out, &ast.CallExpr{Fun: &ast.SelectorExpr{X: r, Sel: ast.NewIdent(mname)}})
							continue
						}
					}
				}
				out = append(out, e)
			}
			return out
		}
		isList := func(e ast.Expr) bool { return selectorField(info, e) == listF }
		ast.Inspect(fd.Body, func(x ast.Node) bool {
			if _, isLit := x.(*ast.FuncLit); isLit {
				opaqueCalls[root] = true
				return false
			}
			switch s := x.(type) {
			case *ast.AssignStmt:
				for i, l := range s.Lhs {
					if ix, ok := ast.Unparen(l).(*ast.IndexExpr); ok && isMap(ix.X) && len(s.Lhs) == len(s.Rhs) {
						out = append(out, eff{"map-insert", at(s), stmtOf(s), sub([]ast.Expr{ix.Index, s.Rhs[i]})})
					}
					if isMap(l) {
						// `if v.keys == nil { v.keys = make(...) }`: the index is made where it is missing,
						// nothing is thrown away
						guardedByNil := false
						chain := pathTo(fd.Body, s)
						for ci := len(chain) - 2; ci >= 0; ci-- {
							if is, ok := chain[ci].(*ast.IfStmt); ok && containsNode(is.Body, s) {
								if be, ok := ast.Unparen(is.Cond).(*ast.BinaryExpr); ok && be.Op == token.EQL && (isMap(be.X) || isMap(be.Y)) && (info.Types[be.X].IsNil() || info.Types[be.Y].IsNil()) {
									guardedByNil = true
								}
							}
						}
						if !guardedByNil {
							out = append(out, eff{"map-reset", at(s), stmtOf(s), nil})
						}
					}
					if isList(l) {
						out = append(out, eff{"list-reset", at(s), stmtOf(s), nil})
					}
				}
			case *ast.CallExpr:
				if isBuiltinCall(info, s, "delete") && len(s.Args) == 2 && isMap(s.Args[0]) {
					out = append(out, eff{"map-delete", at(s), stmtOf(s), sub([]ast.Expr{s.Args[1]})})
				}
				if isBuiltinCall(info, s, "clear") && len(s.Args) == 1 && isMap(s.Args[0]) {
					out = append(out, eff{"map-reset", at(s), stmtOf(s), nil})
				}
				rx, mname, call, isM := methodCall(s)
				if isM && isList(rx) && listMutators[mname] {
					kind := "list-other:" + mname
					switch mname {
					case "AppendValue":
						kind = "list-append"
					case "RemoveValue":
						kind = "list-remove"
					case "RemoveAll":
						kind = "list-reset"
					case "SortValues", "SortValuesWithRanker", "ReverseValues", "ShuffleValues":
						kind = "list-reorder"
					}
					out = append(out, eff{kind, at(s), stmtOf(s), sub(call.Args)})
					return true
				}
				// unexported helpers: of the key index's own type, or of the catalog
				cf := calleeOf(info, s)
				if cf == nil || cf.Exported() || depth >= 3 {
					return true
				}
				hd := c.declOf(cf)
				if hd == nil || hd.Body == nil || c.infoFor(hd) != info {
					return true
				}
				hsub := map[types.Object]ast.Expr{}
				hps := paramObjs(info, hd)
				for i, a := range s.Args {
					if i < len(hps) {
						as := sub([]ast.Expr{a})
						hsub[hps[i]] = as[0]
					}
				}
				hIsMap := isMap
				if isM && isMap(rx) {
					hr := recvObj(info, hd)
					hIsMap = func(e ast.Expr) bool { return hr != nil && identObj(info, e) == hr }
				} else if isM {
					if ro := recvObj(info, fd); ro == nil || identObj(info, rx) != ro {
						return true // a method of something else
					}
				}
				anc := anchor
				if anc == nil {
					anc = s
				}
				out = append(out, effectsIn(root, hd, hIsMap, anc, hsub, depth+1)...)
			}
			return true
		})
		return out
	}
	effectsOf := func(fd *ast.FuncDecl) []eff {
		return effectsIn(fd, fd, func(e ast.Expr) bool { return selectorField(info, e) == mapF }, nil, nil, 0)
	}
	sameRegion := func(fd *ast.FuncDecl, a, b ast.Stmt) bool {
		// both statements are members of the same statement list, with no return/panic/branch between them
		var list []ast.Stmt
		ast.Inspect(fd.Body, func(x ast.Node) bool {
			var l []ast.Stmt
			switch s := x.(type) {
			case *ast.BlockStmt:
				l = s.List
			case *ast.CaseClause:
				l = s.Body
			}
			ia, ib := -1, -1
			for i, s := range l {
				if s == a {
					ia = i
				}
				if s == b {
					ib = i
				}
			}
			if ia >= 0 && ib >= 0 {
				list = l
				if ia > ib {
					ia, ib = ib, ia
				}
				list = l[ia : ib+1]
			}
			return true
		})
		if list == nil {
			return false
		}
		for _, s := range list {
			switch s.(type) {
			case *ast.ReturnStmt, *ast.BranchStmt:
				return false
			}
		}
		return true
	}

	checkReceiverWrites(c, r, "D1-receiver-writes-persist", cat)
	checkAssociationKeyFrozen(c, r, "D1-association-key-frozen")
	checkResetCompleteness(c, r, "D1-reset-complete", cat)
	checkReadersWriteNothing(c, r, "D1-readers-write-nothing", cat)
	checkTypeLockPairing(c, r, "D1-lock-released", cat)
	{
		// the catalog's file and the file of its associations
		fds := fileFuncs(c, "collection", cat)
		if an, err := c.impl("collection", "AssociationLike"); err == nil && an != nil {
			fds = append(fds, fileFuncs(c, "collection", an)...)
		}
		checkNoDynamicEquality(c, r, "D2-no-dynamic-equality", fds)
	}
	checkNoReadBackOfRangedMap(c, r, "D1-values-from-the-ranged-pairs", fileFuncs(c, "collection", cat))
	checkUnsignedSizeMinus(c, r, "D1-unsigned-size-minus", fileFuncs(c, "collection", cat))
	for _, name := range sortedKeys(ms) {
		fd := ms[name]
		if !ast.IsExported(name) {
			continue // the effects of helpers are judged in the exported methods that call them
		}
		effs := effectsOf(fd)
		if len(effs) == 0 {
			continue
		}
		construct := c.fdName(fd)
		count := map[string][]eff{}
		for _, e := range effs {
			count[e.kind] = append(count[e.kind], e)
		}
		params := paramObjs(info, fd)
		bad := ""
		pair := func(a, b string) {
			if len(count[a]) != len(count[b]) {
				bad = fmt.Sprintf("%d %s but %d %s: the key index and the ordered list diverge", len(count[a]), a, len(count[b]), b)
				return
			}
			// a reset that is done only when there is something to reset (if len(keys) > 0 { keys =
			// make(...) }) stands where its guard stands
			lift := func(st ast.Stmt) ast.Stmt {
				chain := pathTo(fd.Body, st)
				for ci := len(chain) - 2; ci >= 0; ci-- {
					is, ok := chain[ci].(*ast.IfStmt)
					if !ok {
						continue
					}
					if is.Else != nil || is.Init != nil || len(is.Body.List) != 1 || is.Body.List[0] != st {
						return st
					}
					be, ok := ast.Unparen(is.Cond).(*ast.BinaryExpr)
					if !ok {
						return st
					}
					for _, side := range []ast.Expr{be.X, be.Y} {
						if call, ok := ast.Unparen(side).(*ast.CallExpr); ok && isBuiltinCall(info, call, "len") && len(call.Args) == 1 && selectorField(info, call.Args[0]) != nil {
							return is
						}
					}
					return st
				}
				return st
			}
			for i := range count[a] {
				if !sameRegion(fd, lift(count[a][i].stmt), lift(count[b][i].stmt)) {
					bad = fmt.Sprintf("the %s at %s and the %s at %s are not in the same control region: one can happen without the other", a, c.pos(count[a][i].node.Pos()), b, c.pos(count[b][i].node.Pos()))
				}
			}
		}
		pair("map-insert", "list-append")
		pair("map-reset", "list-reset")
		// delete/remove: deleting an absent key is a no-op, so the delete may also run where the
		// key was not found; what must hold is (a) every path that removes from the list deletes
		// the key before it returns, and (b) no path on which the key was found deletes it without
		// removing its association from the list.
		if len(count["map-delete"]) != len(count["list-remove"]) {
			bad = fmt.Sprintf("%d deletions from the key index but %d removals from the list: the two structures diverge", len(count["map-delete"]), len(count["list-remove"]))
		} else if len(count["map-delete"]) == 1 {
			del, rem := count["map-delete"][0], count["list-remove"][0]
			g := newFG(info, fd.Body)
			var okObj types.Object
			ast.Inspect(fd.Body, func(x ast.Node) bool {
				if lhs, rhs, ok := multiDef(x); ok && len(lhs) == 2 {
					if ix, ok := ast.Unparen(rhs).(*ast.IndexExpr); ok && selectorField(info, ix.X) == mapF {
						okObj = identObj(info, lhs[1])
					}
				}
				return true
			})
			if pt, ok := g.after(rem.node); ok {
				leak, _ := g.exists(pathQuery{from: pt,
					stop:     func(n ast.Node) bool { return containsNode(n, del.node) },
					goalExit: func(kind int, _ *cfg.Block) bool { return kind == exitReturn }})
				before, _ := g.exists(pathQuery{from: point{g.entry(), 0},
					stop:     func(n ast.Node) bool { return containsNode(n, del.node) && !containsNode(n, rem.node) },
					goalNode: func(n ast.Node) bool { return containsNode(n, rem.node) }})
				if leak && before {
					bad = "a path removes the association from the list and returns without deleting its key from the index"
				}
			}
			foundEdge := func(cond ast.Expr, pol bool) bool {
				cd := ast.Unparen(cond)
				if u, ok := cd.(*ast.UnaryExpr); ok && u.Op == token.NOT {
					cd, pol = ast.Unparen(u.X), !pol
				}
				if id, ok := cd.(*ast.Ident); ok && okObj != nil && info.Uses[id] == okObj {
					return pol // only follow the edge on which the key was found
				}
				return true
			}
			found, _ := g.exists(pathQuery{from: point{g.entry(), 0},
				stop:     func(n ast.Node) bool { return containsNode(n, rem.node) },
				goalNode: func(n ast.Node) bool { return containsNode(n, del.node) && !containsNode(n, rem.node) },
				edgeOK:   foundEdge})
			if found {
				if pt, ok := g.after(del.node); ok {
					found, _ = g.exists(pathQuery{from: pt,
						stop:     func(n ast.Node) bool { return containsNode(n, rem.node) },
						goalExit: func(kind int, _ *cfg.Block) bool { return kind == exitReturn },
						edgeOK:   foundEdge})
				}
			}
			if found && bad == "" {
				bad = "a path on which the key is present deletes it from the index without removing its association from the list"
			}
		}
		for kind := range count {
			if strings.HasPrefix(kind, "list-other") {
				bad = "the association list is mutated through " + strings.TrimPrefix(kind, "list-other:") + ", which has no counterpart on the key map"
			}
		}
		if len(count["list-reorder"]) > 0 && (len(count["map-insert"])+len(count["map-delete"])+len(count["map-reset"]) > 0) {
			bad = "a reordering method also changes the key map"
		}
		// identity of the coupled values
		if bad == "" {
			for i, ins := range count["map-insert"] {
				app := count["list-append"][i]
				ao, bo := identObj(info, ins.args[1]), identObj(info, app.args[0])
				sameExpr := ast.Unparen(ins.args[1]) == ast.Unparen(app.args[0]) // one argument of a helper that does both
				if !sameExpr && (ao == nil || ao != bo) {
					bad = "the association stored under the key is not the association appended to the list"
					break
				}
				// built from the method's key and value:  X = Association.Make(key, value), or any
				// constructor-like call that is handed both; evidence of a fault is a constructing
				// call that is handed only one of them, or neither
				var ctorCalls []*ast.CallExpr
				if cl, ok := ast.Unparen(resolveInit(info, fd, ins.args[1])).(*ast.CallExpr); ok {
					ctorCalls = append(ctorCalls, cl)
				}
				ast.Inspect(fd.Body, func(x ast.Node) bool {
					if as, ok := x.(*ast.AssignStmt); ok && len(as.Lhs) == 1 && len(as.Rhs) == 1 && identObj(info, as.Lhs[0]) == ao {
						if cl, ok := ast.Unparen(as.Rhs[0]).(*ast.CallExpr); ok {
							ctorCalls = append(ctorCalls, cl)
						}
					}
					return true
				})
				if len(params) >= 2 && len(ctorCalls) > 0 {
					good := false
					for _, cl := range ctorCalls {
						hasK, hasV := false, false
						for _, a := range cl.Args {
							if isObj(info, a, params[0]) {
								hasK = true
							}
							if isObj(info, a, params[1]) {
								hasV = true
							}
						}
						if hasK && hasV {
							good = true
						}
					}
					if !good {
						bad = "the new association is not built from the method's own key and value"
						break
					}
				}
				keyOK := len(params) > 0 && isObj(info, ins.args[0], params[0])
				if rx, mname, _, ok := methodCall(ast.Unparen(ins.args[0])); ok && mname == "GetKey" && len(params) > 0 {
					// the key of the very association that is stored, which was built from the key parameter
					src := ast.Unparen(rx)
					if id, isId := src.(*ast.Ident); isId {
						src = ast.Unparen(resolveInit(info, fd, id))
					}
					if cl, ok := src.(*ast.CallExpr); ok && (ast.Unparen(rx) == ast.Unparen(ins.args[1]) || identObj(info, rx) == ao) {
						for _, a := range cl.Args {
							if isObj(info, a, params[0]) {
								keyOK = true
							}
						}
					}
				}
				if !keyOK {
					bad = "the association is indexed under something other than the method's key"
				}
			}
			for _, del := range count["map-delete"] {
				if len(params) == 0 || !isObj(info, del.args[0], params[0]) {
					bad = "the key deleted from the index is not the method's key parameter"
				}
			}
		}
		if bad != "" && opaqueCalls[fd] {
			r.skip("D1-coupled-updates", construct, c.pos(fd.Pos()), "the method works through function literals whose effects are not followed ("+bad+")")
			continue
		}
		r.check(bad == "", "D1-coupled-updates", construct, c.pos(fd.Pos()), fmt.Sprintf("%d effect(s), pairwise coupled in one control region", len(effs)), bad)
	}
	r.floorSoft("D1-coupled-updates", "collection.CatalogLike/updates", "no exported method changes the key index or the list in a way the rule can see")

	// mapLookup: e reads the key index - v.keys_[k] itself, or a call of an unexported helper
	// (of the index's type or of the catalog) that returns what it reads from the index under
	// one of its parameters.  Returns the key expression in terms of the caller.
	var mapLookup func(e ast.Expr, depth int) (ast.Expr, bool)
	mapLookup = func(e ast.Expr, depth int) (ast.Expr, bool) {
		e = ast.Unparen(e)
		if ix, ok := e.(*ast.IndexExpr); ok && selectorField(info, ix.X) == mapF {
			return ix.Index, true
		}
		call, ok := e.(*ast.CallExpr)
		if !ok || depth > 2 {
			return nil, false
		}
		cf := calleeOf(info, call)
		if cf == nil || cf.Exported() {
			return nil, false
		}
		hd := c.declOf(cf)
		if hd == nil || hd.Body == nil || c.infoFor(hd) != info {
			return nil, false
		}
		hps := paramObjs(info, hd)
		hr := recvObj(info, hd)
		rx, _, _, isM := methodCall(call)
		onIndex := isM && selectorField(info, rx) == mapF
		var key ast.Expr
		ast.Inspect(hd.Body, func(x ast.Node) bool {
			ix, ok := x.(*ast.IndexExpr)
			if !ok {
				return true
			}
			isIdx := selectorField(info, ix.X) == mapF || (onIndex && hr != nil && identObj(info, ix.X) == hr)
			if !isIdx {
				return true
			}
			for pi, p := range hps {
				if isObj(info, ix.Index, p) && pi < len(call.Args) {
					key = call.Args[pi]
				}
			}
			return true
		})
		if key == nil {
			// one level further: the helper itself calls a lookup helper
			ast.Inspect(hd.Body, func(x ast.Node) bool {
				if inner, ok := x.(*ast.CallExpr); ok && key == nil {
					if k, ok := mapLookup(inner, depth+1); ok {
						for pi, p := range hps {
							if isObj(info, k, p) && pi < len(call.Args) {
								key = call.Args[pi]
							}
						}
					}
				}
				return true
			})
		}
		return key, key != nil
	}
	callsHelpers := func(fd *ast.FuncDecl) bool {
		found := false
		ast.Inspect(fd.Body, func(x ast.Node) bool {
			if _, isLit := x.(*ast.FuncLit); isLit {
				found = true
			}
			if call, ok := x.(*ast.CallExpr); ok {
				if cf := calleeOf(info, call); cf != nil && !cf.Exported() && c.declOf(cf) != nil {
					found = true
				}
			}
			return true
		})
		return found
	}
	// in-place update of SetValue goes to the association found under the same key
	if fd := ms["SetValue"]; fd != nil {
		params := paramObjs(info, fd)
		bad := "no in-place update of an existing association"
		if callsHelpers(fd) {
			bad = "skip: no in-place update of an association that was looked up in this method (it may be made by a helper)"
		}
		ast.Inspect(fd.Body, func(x ast.Node) bool {
			if rx, mname, call, ok := methodCall(x); ok && mname == "SetValue" && len(call.Args) == 1 && len(params) == 2 {
				// the association updated: a local defined from a lookup, or the lookup itself
				srcs := []ast.Expr{ast.Unparen(rx)}
				if ao := identObj(info, rx); ao != nil {
					srcs = nil
					ast.Inspect(fd.Body, func(y ast.Node) bool {
						if lhs, rhs, ok := multiDef(y); ok && len(lhs) >= 1 && identObj(info, lhs[0]) == ao {
							srcs = append(srcs, ast.Unparen(rhs))
						}
						return true
					})
				}
				for _, src := range srcs {
					key, ok := mapLookup(src, 0)
					if !ok {
						continue
					}
					switch {
					case !isObj(info, key, params[0]):
						bad = "the association updated in place is looked up under something other than the method's key"
					case !isObj(info, call.Args[0], params[1]):
						bad = "the in-place update does not store the method's value parameter"
					default:
						bad = ""
					}
				}
			}
			return true
		})
		r.verdict("D1-update-in-place", c.fdName(fd), c.pos(fd.Pos()), "an existing key updates the association found under that key with the new value (position unchanged)", bad)
	}
	// GetValue reads the association under the key
	if fd := ms["GetValue"]; fd != nil {
		params := paramObjs(info, fd)
		bad := "GetValue does not look its key parameter up in the key index"
		if callsHelpers(fd) {
			bad = "skip: no lookup in the key index is made in this method itself"
		}
		ast.Inspect(fd.Body, func(x ast.Node) bool {
			if e, ok := x.(ast.Expr); ok && len(params) == 1 {
				if key, ok := mapLookup(e, 0); ok {
					if isObj(info, key, params[0]) {
						bad = ""
					} else if bad != "" {
						bad = "GetValue looks something other than its key parameter up in the key index"
					}
				}
			}
			return true
		})
		r.verdict("D1-update-in-place", c.fdName(fd), c.pos(fd.Pos()), "reads the key index under its key parameter", bad)
	}

	// ---- D2 identity lookup
	if fd := ms["RemoveValue"]; fd != nil {
		construct := c.fdName(fd)
		// scope: RemoveValue and the private methods of the catalog it reaches through its receiver
		cg := c.sameTypeCallGraph(cat)
		scope := []*ast.FuncDecl{fd}
		seen := map[string]bool{"RemoveValue": true}
		for work := []string{"RemoveValue"}; len(work) > 0; {
			n := work[0]
			work = work[1:]
			for callee := range cg[n] {
				if !seen[callee] && !ast.IsExported(callee) && ms[callee] != nil {
					seen[callee] = true
					scope = append(scope, ms[callee])
					work = append(work, callee)
				}
			}
		}
		var rem *ast.CallExpr
		usesSearch, cmp := false, false
		for _, sfd := range scope {
			sparams := paramObjs(info, sfd)
			inspectNoLit(sfd.Body, func(x ast.Node) bool {
				if rx, mname, call, ok := methodCall(x); ok && selectorField(info, rx) == listF {
					if mname == "RemoveValue" {
						rem = call
					}
					if searchableNames[mname] {
						usesSearch = true
					}
				}
				if be, ok := x.(*ast.BinaryExpr); ok && be.Op.String() == "==" {
					l, rr := ast.Unparen(be.X), ast.Unparen(be.Y)
					for _, pr := range [][2]ast.Expr{{l, rr}, {rr, l}} {
						if _, mname, _, ok := methodCall(pr[0]); ok && mname == "GetKey" {
							for _, sp := range sparams {
								if isObj(info, pr[1], sp) {
									cmp = true
								}
							}
						}
					}
				}
				return true
			})
		}
		bad := ""
		switch {
		case rem == nil:
			bad = "skip: RemoveValue does not call the association list's RemoveValue: the identity rule is bound to the list-backed design"
		case usesSearch:
			bad = "the list position is found with the list's collator-based search (structural equality): with pointer keys a != b, *a == *b and equal values, RemoveValue(b) removes a's list entry and b's index entry"
		case len(scope) == 1 && !hasFuncLit(fd.Body) && func() bool {
			deps := depClosure(info, fd)
			params := paramObjs(info, fd)
			idxObj := identObj(info, rem.Args[0])
			return idxObj != nil && len(params) == 1 && !deps[idxObj][params[0]]
		}():
			bad = "the list position removed does not depend on the key parameter"
		case !cmp:
			bad = "skip: the position is not located by a visible == comparison of the associations' keys with the key parameter"
		}
		r.verdict("D2-identity-lookup", construct, c.pos(fd.Pos()), "the removed position is located by key identity (==, the identity the key index uses)", bad)
	}
	r.floor("D2-identity-lookup", 1)

	// ---- D1b bulk operations are folds of the single-key operations
	for _, b := range [][2]string{{"GetValues", "GetValue"}, {"RemoveValues", "RemoveValue"}} {
		if fd := ms[b[0]]; fd != nil {
			bad := bulkFold(c, info, fd, b[1], true)
			r.verdict("D1-bulk-fold", c.fdName(fd), c.pos(fd.Pos()), "applies "+b[1]+" to every requested key, in order", bad)
		}
	}
	for _, nm := range []string{"MakeFromSequence", "MakeFromMap"} {
		if fd := c.methodsOf(cls)[nm]; fd != nil {
			bad := bulkFold(c, info, fd, "SetValue", false)
			r.verdict("D1-bulk-fold", c.fdName(fd), c.pos(fd.Pos()), "sets every entry of the source", bad)
		}
	}
	if fd := ms["GetKeys"]; fd != nil {
		loops := loopsIn(fd.Body)
		bad := "skip: GetKeys is not one loop over the association list"
		if len(loops) == 1 {
			_, bad = coveringLoop(c, info, loops[0])
		}
		r.verdict("D1-bulk-fold", c.fdName(fd), c.pos(fd.Pos()), "visits every association", bad)
	}
	r.floor("D1-bulk-fold", 4)
	// an existing key is replaced in this catalog only: association cells are never shared between catalogs
	checkCellsNotShared(c, r, "D1-cells-not-shared")

	// ---- D3 loops
	for _, n := range []*types.Named{cat, cls} {
		m := c.methodsOf(n)
		for _, name := range sortedKeys(m) {
			checkLoops(c, r, "D3-loop-progress", m[name], nil)
		}
	}
	r.floorSoft("D3-loop-progress", "loops", "no loop is left in the methods this rule looks at")
}

func hasFuncLit(n ast.Node) bool {
	found := false
	ast.Inspect(n, func(x ast.Node) bool {
		if _, ok := x.(*ast.FuncLit); ok {
			found = true
		}
		return !found
	})
	return found
}

// checkAssociationKeyFrozen: the key of an association is set when the association is made and
// never again.  An association is shared by reference with every array view and iterator
// snapshot taken of its catalog; one whose key is overwritten later (recycled for another entry)
// makes those snapshots show an entry that was not in the catalog when they were taken.
func checkAssociationKeyFrozen(c *Ctx, r *Rec, rule string) {
	an, err := c.impl("collection", "AssociationLike")
	if err != nil || an == nil {
		return
	}
	info := c.info("collection")
	ms := c.methodsOf(an)
	gk := ms["GetKey"]
	if gk == nil || gk.Body == nil {
		return
	}
	var keyF *types.Var
	ast.Inspect(gk.Body, func(x ast.Node) bool {
		if rs, ok := x.(*ast.ReturnStmt); ok && len(rs.Results) == 1 {
			if f := selectorField(info, rs.Results[0]); f != nil {
				keyF = f
			}
		}
		return true
	})
	construct := "collection.AssociationLike/key"
	if keyF == nil {
		r.skip(rule, construct, c.pos(gk.Pos()), "GetKey does not return a field")
		return
	}
	if ws := c.fieldWrites()[keyF.Origin()]; len(ws) > 0 {
		r.fail(rule, construct, c.pos(ws[0].Pos), fmt.Sprintf("the key of an existing association is %s in %s: array views and iterators that were handed this association earlier now show a key that was not in the catalog when they were taken", ws[0].How, ws[0].In.Name.Name))
		return
	}
	r.ok(rule, construct, c.pos(keyF.Pos()), "the key field is written only while the association is made")
}
