package main

// C06 — Fork, Split and Join conserve, order and terminate streams (structural clauses).

import (
	"fmt"
	"go/ast"
	"go/token"
	"go/types"
	"strings"

	"golang.org/x/tools/go/cfg"
)

func init() {
	register(&propInfo{
		ID:      "C06",
		Engines: "PATH (go/cfg dominance and per-iteration must-pass), iterator typestate (Start / moved), LP loop forms",
		Decided: "D1 for each helper goroutine: group.Add(1) dominates the go statement, the goroutine's first statement is defer group.Done(), and there is no other Add/Done; " +
			"D2 after the read loop is left (input closed and drained) every output is closed on every path: a covering traversal that starts from the iterator's Start state for Fork/Split, the single output for Join; " +
			"D3 distribution shape: Fork hands each value read to every output through a covering traversal from Start; Split/Join move exactly one value per successful read and follow every GetNext of the cyclic iterator by the wrap check (!HasNext -> ToStart) before the next iteration; " +
			"D4 the loops of the three helpers are in a terminating or blocking-read loop form." +
			" Also: a backward traversal that closes the outputs starts from ToEnd; the rotation over the outputs advances once per value; a preloaded input delivers every value (token balance at birth)." +
			" Round 7: the goroutine does not ask a caller-owned sequence operand for anything after the helper returned; a goroutine started through a private starter is bound through it." +
			" Rounds 8-9: a local channel of fixed capacity is not filled by its maker with a data-dependent number of values; no 8 or 16 bit counter is stepped in an unbounded loop; a goroutine started through a method of a private struct is bound through the struct's fields.",
		NotDecided: "order and conservation across schedules, termination of the helpers (needs readers to drain the outputs), absence of delivery after closure.",
		Run:        runC06,
	})
}

func runC06(c *Ctx, r *Rec) {
	qr := bindQueue(c, r)
	cls := c.mustImpl(r, "bind", "collection", "QueueClassLike")
	if cls == nil {
		return
	}
	info := c.info("collection")
	cms := c.methodsOf(cls)
	checkChannelSelfFill(c, r, "D4-channel-self-fill", fileFuncs(c, "collection", cls))
	checkNarrowCounters(c, r, "D3-narrow-counters", fileFuncs(c, "collection", cls))
	shapeLints(c, r, fileFuncs(c, "collection", cls))
	// what the helpers read from an input queue is the head of its list per token: an input that
	// was emptied before it is handed to Fork/Split/Join has lost its values and its tokens together
	{
		tmp := newRec(r.Property)
		if qr := bindQueue(c, tmp); qr != nil {
			checkQueueResets(c, r, "D1-list-and-tokens-together", "", qr)
		}
	}
	for _, name := range []string{"Fork", "Split", "Join"} {
		fd := cms[name]
		construct := "collection." + cls.Obj().Name() + "." + name
		if fd == nil {
			r.undecided("bind", construct, "", "class function not found")
			continue
		}
		checkLoops(c, r, "D4-loop-progress", fd, nil)
		// the go statement
		var goStmt *ast.GoStmt
		ast.Inspect(fd.Body, func(x ast.Node) bool {
			if g, ok := x.(*ast.GoStmt); ok {
				goStmt = g
			}
			return true
		})
		// ... or a private starter: an unexported function of the package that is handed the
		// goroutine's body as a function literal and runs it in a goroutine of its own
		var starter *ast.FuncDecl
		var starterCall *ast.CallExpr
		var taskLit *ast.FuncLit
		var starterTask *types.Var
		if goStmt == nil {
			ast.Inspect(fd.Body, func(x ast.Node) bool {
				call, ok := x.(*ast.CallExpr)
				if !ok || starter != nil {
					return true
				}
				cf := calleeOf(info, call)
				if cf == nil || cf.Exported() {
					return true
				}
				d := c.declOf(cf)
				if d == nil || d.Body == nil || c.infoFor(d) != info {
					return true
				}
				ps := paramObjs(info, d)
				for i, a := range call.Args {
					lit, isLit := ast.Unparen(a).(*ast.FuncLit)
					if !isLit || i >= len(ps) {
						continue
					}
					// the starter runs that parameter inside a go statement
					ast.Inspect(d.Body, func(y ast.Node) bool {
						if g, ok := y.(*ast.GoStmt); ok {
							runs := false
							ast.Inspect(g, func(z ast.Node) bool {
								if cc, ok := z.(*ast.CallExpr); ok && isObj(info, cc.Fun, ps[i]) {
									runs = true
								}
								return true
							})
							if isObj(info, g.Call.Fun, ps[i]) {
								runs = true
							}
							if runs {
								goStmt, starter, starterCall, taskLit, starterTask = g, d, call, lit, ps[i]
							}
						}
						return true
					})
				}
				return true
			})
		}
		if goStmt == nil {
			r.skip("D1-waitgroup-pairing", construct, c.pos(fd.Pos()), "no go statement in the helper itself (the goroutine may be started by a private function it delegates to)")
			r.skip("D2-closure-propagation", construct, c.pos(fd.Pos()), "no go statement in the helper itself")
			r.skip("D3-distribution", construct, c.pos(fd.Pos()), "no go statement in the helper itself")
			continue
		}
		// the body of the goroutine: a function literal, or a private function/method of the
		// repository called with the helper's variables (objects are mapped through the arguments)
		var gbody *ast.BlockStmt
		mapObj := func(o types.Object) types.Object { return o }
		if starter != nil {
			gbody = taskLit.Body
		} else if lit, _ := goStmt.Call.Fun.(*ast.FuncLit); lit != nil {
			gbody = lit.Body
			// a literal with parameters: what is handed to it is known inside under the parameter's
			// name; what it captures keeps its own
			var lparams []types.Object
			if lit.Type.Params != nil {
				for _, f := range lit.Type.Params.List {
					for _, nm := range f.Names {
						lparams = append(lparams, info.Defs[nm])
					}
				}
			}
			if len(lparams) > 0 {
				lcall := goStmt.Call
				mapObj = func(o types.Object) types.Object {
					if o == nil {
						return nil
					}
					for i, a := range lcall.Args {
						if isObj(info, a, o) && i < len(lparams) {
							return lparams[i]
						}
					}
					return o
				}
			}
		} else if d := c.declOf(calleeOf(info, goStmt.Call)); d != nil && d.Body != nil && c.infoFor(d) == info {
			gbody = d.Body
			gparams := paramObjs(info, d)
			gcall := goStmt.Call
			mapObj = func(o types.Object) types.Object {
				if o == nil {
					return nil
				}
				for i, a := range gcall.Args {
					if isObj(info, a, o) && i < len(gparams) {
						return gparams[i]
					}
				}
				return nil
			}
		}
		if gbody == nil {
			r.skip("D1-waitgroup-pairing", construct, c.pos(goStmt.Pos()), "the goroutine's body is neither a function literal nor a function of the repository")
			r.skip("D2-closure-propagation", construct, c.pos(goStmt.Pos()), "the goroutine's body could not be bound")
			r.skip("D3-distribution", construct, c.pos(goStmt.Pos()), "the goroutine's body could not be bound")
			continue
		}
		// the group parameter: the one with Add/Done methods
		var group *types.Var
		for _, p := range paramObjs(info, fd) {
			ms := ifaceMethodNames(p.Type())
			if ms["Add"] && ms["Done"] {
				group = p
			}
		}
		if group == nil {
			r.skip("D1-waitgroup-pairing", construct, c.pos(fd.Pos()), "no wait-group parameter found")
			continue
		}
		// ---- D1
		if starter != nil {
			// the pairing is the starter's: Add(1) on its group parameter before its go statement,
			// `defer Done()` first in its goroutine, which then runs the task
			var sGroup *types.Var
			sps := paramObjs(info, starter)
			for i, a := range starterCall.Args {
				if isObj(info, a, group) && i < len(sps) {
					sGroup = sps[i]
				}
			}
			bad := ""
			if sGroup == nil {
				bad = "skip: the wait group is not handed to the function that starts the goroutine"
			} else {
				var adds, dones []ast.Node
				for _, scope := range []ast.Node{fd.Body, starter.Body} {
					ast.Inspect(scope, func(x ast.Node) bool {
						if rx, mname, call, ok := methodCall(x); ok && (isObj(info, rx, group) || isObj(info, rx, sGroup)) {
							switch mname {
							case "Add":
								adds = append(adds, call)
							case "Done":
								dones = append(dones, call)
							}
						}
						return true
					})
				}
				sg := newFG(info, starter.Body)
				glit, _ := goStmt.Call.Fun.(*ast.FuncLit)
				switch {
				case len(adds) != 1:
					bad = fmt.Sprintf("%d calls of group.Add, required exactly one", len(adds))
				case len(dones) != 1:
					bad = fmt.Sprintf("%d calls of group.Done, required exactly one", len(dones))
				case glit == nil:
					bad = "skip: the starter's goroutine is not a function literal"
				case containsNode(glit, adds[0]) || containsNode(taskLit, adds[0]):
					bad = "group.Add is called inside the goroutine: Wait can return before the helper has registered"
				case !containsNode(starter.Body, adds[0]) || !sg.nodeDominates(adds[0], goStmt):
					bad = "group.Add(1) does not dominate the go statement"
				default:
					if tv := info.Types[adds[0].(*ast.CallExpr).Args[0]]; tv.Value == nil || tv.Value.String() != "1" {
						bad = "group.Add is not called with 1 for the single goroutine started"
					}
					ds, ok := firstStmt(glit.Body).(*ast.DeferStmt)
					if !ok || ds.Call != dones[0] {
						bad = "the goroutine's first statement is not `defer group.Done()`: a panic or early exit leaves the wait group counted up"
					}
				}
				_ = starterTask
			}
			r.verdict("D1-waitgroup-pairing", construct, c.pos(starterCall.Pos()), "the private starter does Add(1) before its go statement and its goroutine starts with defer Done(); no other Add/Done", bad)
		}
		var adds, dones []ast.Node
		gGroup := mapObj(group)
		// the goroutine may be a method of a private struct that was filled with the helper's
		// variables (go pump.fork()): the group is then a field of the method's receiver
		var groupField *types.Var
		if sel, ok := ast.Unparen(goStmt.Call.Fun).(*ast.SelectorExpr); ok && starter == nil {
			if holder := identObj(info, sel.X); holder != nil {
				ast.Inspect(fd.Body, func(x ast.Node) bool {
					if kv, ok := x.(*ast.KeyValueExpr); ok && isObj(info, kv.Value, group) {
						if id, ok := kv.Key.(*ast.Ident); ok {
							if fv, ok := info.Uses[id].(*types.Var); ok && fv.IsField() {
								groupField = fv.Origin()
							}
						}
					}
					if as, ok := x.(*ast.AssignStmt); ok && len(as.Lhs) == 1 && len(as.Rhs) == 1 && isObj(info, as.Rhs[0], group) {
						if se, ok := ast.Unparen(as.Lhs[0]).(*ast.SelectorExpr); ok && isObj(info, se.X, holder) {
							groupField = selectorField(info, se)
						}
					}
					return true
				})
			}
		}
		if starter == nil {
			for _, scope := range []ast.Node{fd.Body, gbody} {
				if scope == ast.Node(gbody) && containsNode(fd.Body, gbody) {
					continue // a literal: already visited
				}
				ast.Inspect(scope, func(x ast.Node) bool {
					if rx, mname, call, ok := methodCall(x); ok && (isObj(info, rx, group) || (gGroup != nil && isObj(info, rx, gGroup)) || (groupField != nil && selectorField(info, rx) == groupField)) {
						switch mname {
						case "Add":
							adds = append(adds, call)
						case "Done":
							dones = append(dones, call)
						}
					}
					return true
				})
			}
			g := newFG(info, fd.Body)
			bad := ""
			switch {
			case len(adds) != 1:
				bad = fmt.Sprintf("%d calls of group.Add, required exactly one", len(adds))
			case len(dones) != 1:
				bad = fmt.Sprintf("%d calls of group.Done, required exactly one", len(dones))
			case containsNode(gbody, adds[0]):
				bad = "group.Add is called inside the goroutine: Wait can return before the helper has registered"
			case !g.nodeDominates(adds[0], goStmt):
				bad = "group.Add(1) does not dominate the go statement"
			default:
				if tv := info.Types[adds[0].(*ast.CallExpr).Args[0]]; tv.Value == nil || tv.Value.String() != "1" {
					bad = "group.Add is not called with 1 for the single goroutine started"
				}
				ds, ok := firstStmt(gbody).(*ast.DeferStmt)
				if !ok || ds.Call != dones[0] {
					bad = "the goroutine's first statement is not `defer group.Done()`: a panic or early exit leaves the wait group counted up"
				}
			}
			r.check(bad == "", "D1-waitgroup-pairing", construct, c.pos(goStmt.Pos()), "Add(1) dominates go; the goroutine starts with defer Done(); no other Add/Done", bad)
		}

		// ---- shape of the goroutine
		var readLoop *ast.ForStmt
		var readIdx int
		for i, s := range gbody.List {
			if fs, ok := s.(*ast.ForStmt); ok {
				reads := false
				inspectNoLit(fs.Body, func(x ast.Node) bool {
					if lhs, rhs, ok := multiDef(x); ok && len(lhs) == 2 {
						if _, mname, _, ok := methodCall(ast.Unparen(rhs)); ok && mname == "RemoveHead" {
							reads = true
						}
					}
					return true
				})
				if fs.Cond == nil || reads {
					readLoop, readIdx = fs, i
					break
				}
			}
		}
		if readLoop == nil {
			r.skip("D2-closure-propagation", construct, c.pos(gbody.Pos()), "no unconditional read loop at the top level of the goroutine: the closure and distribution rules are bound to the `for { v, ok := in.RemoveHead(); if !ok { break } ... }` design")
			r.skip("D3-distribution", construct, c.pos(gbody.Pos()), "no unconditional read loop at the top level of the goroutine")
			continue
		}
		after := gbody.List[readIdx+1:]
		// the value read and its ok
		var valueObj, okObj types.Object
		var readCall *ast.CallExpr
		inspectNoLit(readLoop.Body, func(x ast.Node) bool {
			if lhs, rhs, ok := multiDef(x); ok && len(lhs) == 2 {
				if _, mname, call, ok := methodCall(ast.Unparen(rhs)); ok && mname == "RemoveHead" {
					readCall = call
					valueObj = identObj(info, lhs[0])
					okObj = identObj(info, lhs[1])
				}
			}
			return true
		})
		if readCall == nil || valueObj == nil {
			r.skip("D2-closure-propagation", construct, c.pos(readLoop.Pos()), "no `value, ok := q.RemoveHead()` in the read loop")
			r.skip("D3-distribution", construct, c.pos(readLoop.Pos()), "no `value, ok := q.RemoveHead()` in the read loop")
			continue
		}
		// what the function returns
		var retObj types.Object
		ast.Inspect(fd.Body, func(x ast.Node) bool {
			if _, isLit := x.(*ast.FuncLit); isLit {
				return false
			}
			if rs, ok := x.(*ast.ReturnStmt); ok && len(rs.Results) == 1 {
				if id, ok := ast.Unparen(rs.Results[0]).(*ast.Ident); ok {
					retObj = info.Uses[id]
				}
			}
			return true
		})
		if retObj == nil {
			r.skip("D2-closure-propagation", construct, c.pos(fd.Pos()), "the helper does not return a variable")
			r.skip("D3-distribution", construct, c.pos(fd.Pos()), "the helper does not return a variable")
			continue
		}
		lg := newFG(info, gbody)
		retObj = mapObj(retObj) // as the goroutine's body knows it
		if retObj == nil {
			r.skip("D2-closure-propagation", construct, c.pos(fd.Pos()), "what the helper returns is not handed to the goroutine as a variable")
			r.skip("D3-distribution", construct, c.pos(fd.Pos()), "what the helper returns is not handed to the goroutine as a variable")
			continue
		}

		// the caller's sequence of queues is read before the helper returns: a goroutine that asks
		// the operand for its values (its iterator, its size) does so at some later time, when the
		// caller may have changed the sequence it still owns
		{
			late := ""
			for _, p := range paramObjs(info, fd) {
				if !isSequentialParam(p.Type()) || ifaceMethodNames(p.Type())["RemoveHead"] {
					continue
				}
				gp := mapObj(p)
				ast.Inspect(gbody, func(x ast.Node) bool {
					if rx, mname, call, ok := methodCall(x); ok && late == "" && (isObj(info, rx, p) || (gp != nil && isObj(info, rx, gp))) {
						late = fmt.Sprintf("the goroutine calls %s.%s at %s: the caller's sequence is read at some time after %s has returned, so a change the caller makes to its own sequence afterwards changes which queues are joined", p.Name(), mname, c.pos(call.Pos()), name)
					}
					return true
				})
			}
			if late != "" {
				r.fail("D2-operand-read-before-return", construct, c.pos(goStmt.Pos()), late)
			} else {
				r.ok("D2-operand-read-before-return", construct, c.pos(goStmt.Pos()), "the goroutine does not ask a sequence operand for anything")
			}
		}
		// what the helper returned belongs to the caller: the goroutine does not change it afterwards
		if name != "Join" {
			mut := ""
			var scan func(body ast.Node, obj types.Object, sinfo *types.Info, depth int)
			scan = func(body ast.Node, obj types.Object, sinfo *types.Info, depth int) {
				ast.Inspect(body, func(x ast.Node) bool {
					call, ok := x.(*ast.CallExpr)
					if !ok {
						return true
					}
					if rx, mname, _, ok := methodCall(call); ok && isObj(sinfo, rx, obj) && (listMutators[mname] || mname == "RemoveValues" || mname == "InsertValue" || mname == "InsertValues" || mname == "AppendValues" || mname == "SetValue" || mname == "SetValues") {
						mut = fmt.Sprintf("%s.%s at %s", exprStr(rx), mname, c.pos(call.Pos()))
					}
					if depth < 2 {
						if cf := calleeOf(sinfo, call); cf != nil && !cf.Exported() {
							if hd := c.declOf(cf.Origin()); hd != nil && hd.Body != nil && c.infoFor(hd) == sinfo {
								hps := paramObjs(sinfo, hd)
								for ai, a := range call.Args {
									if ai < len(hps) && isObj(sinfo, a, obj) {
										scan(hd.Body, hps[ai], sinfo, depth+1)
									}
								}
							}
						}
					}
					return true
				})
			}
			scan(gbody, retObj, info, 0)
			if mut != "" {
				r.fail("D2-result-left-to-the-caller", construct, c.pos(goStmt.Pos()), fmt.Sprintf("the goroutine changes the sequence of output queues that the helper has already returned to its caller (%s): the caller's sequence loses or gains queues behind its back", mut))
			} else {
				r.ok("D2-result-left-to-the-caller", construct, c.pos(goStmt.Pos()), "the goroutine only reads the sequence it returned")
			}
		}
		if name == "Join" {
			// D2: output.CloseQueue() at top level after the loop
			closed := false
			for _, s := range after {
				if es, ok := s.(*ast.ExprStmt); ok {
					if rx, mname, _, ok := methodCall(es.X); ok && mname == "CloseQueue" && isObj(info, rx, retObj) {
						closed = true
					}
				}
			}
			elsewhere := len(callsOnIn(info, gbody, retObj, "CloseQueue")) > 0 || passedToHelper(c, info, after, retObj)
			switch {
			case closed:
				r.ok("D2-closure-propagation", construct, c.pos(readLoop.Pos()), "the returned output queue is closed unconditionally after the read loop")
			case elsewhere:
				r.skip("D2-closure-propagation", construct, c.pos(readLoop.Pos()), "the output is closed somewhere else than at the top level after the read loop")
			default:
				r.fail("D2-closure-propagation", construct, c.pos(readLoop.Pos()), "after an input is found closed the goroutine does not close the output queue it returned: readers of the joined stream wait forever")
			}
			// D3: exactly one AddValue(value) on the output per iteration, after a successful read
			adds := callsOnIn(info, readLoop.Body, retObj, "AddValue")
			okAdd := len(adds) == 1 && len(adds[0].Args) == 1 && isObj(info, adds[0].Args[0], valueObj) && lg.nodeDominates(readCall, adds[0])
			// the read is from the queue yielded by the cyclic iterator's GetNext
			iterObj, getNext := cyclicIterator(info, readLoop)
			okRead := false
			if rx, _, _, ok := methodCall(readCall); ok && iterObj != nil && getNext != nil {
				if id, ok := ast.Unparen(rx).(*ast.Ident); ok {
					if init := initOfIn(info, readLoop.Body, id); init != nil && init == ast.Expr(getNext) {
						okRead = true
					}
				}
				if ast.Unparen(rx) == ast.Expr(getNext) {
					okRead = true // X.GetNext().RemoveHead()
				}
			}
			wrap := iterObj != nil && wrapCheckFollows(c, info, lg, readLoop, iterObj, getNext, okObj)
			start := iterObj != nil && startsFromStart(info, gbody, readLoop, iterObj)
			if iterObj != nil && !start && !touchesBefore(info, gbody, readLoop, iterObj) {
				// the goroutine takes the iterator as it finds it: where does it stand when the
				// goroutine is started?
				switch iteratorStateAt(c, info, fd, iterObj, gbody.Pos(), 0) {
				case 1:
					start = true
				case -1:
					if okAdd && okRead && wrap {
						r.skip("D3-distribution", construct, c.pos(readLoop.Pos()), "where the cyclic iterator stands when the goroutine starts could not be established (it is positioned outside the goroutine)")
						continue
					}
				}
			}
			if iterObj == nil || getNext == nil || len(adds) == 0 {
				r.skip("D3-distribution", construct, c.pos(readLoop.Pos()), "the read loop does not advance a cyclic iterator with one GetNext and add to the output in its own body")
				continue
			}
			r.check(okAdd && okRead && wrap && start, "D3-distribution", construct, c.pos(readLoop.Pos()),
				"each iteration reads from the next input in round-robin order (from Start, wrap check after every GetNext) and adds that value once to the output",
				fmt.Sprintf("Join's loop must read the queue yielded by GetNext, add exactly that value once to the output, start from the first input and wrap with `if !HasNext { ToStart }` after every GetNext (one-add=%v reads-next-input=%v wrap-check=%v starts-at-first=%v); without the wrap check GetNext yields a nil queue at the end slot", okAdd, okRead, wrap, start))
			continue
		}

		// Fork / Split: iterator over the returned outputs
		var iterObj types.Object
		for _, s := range gbody.List[:readIdx] {
			ast.Inspect(s, func(x ast.Node) bool {
				switch d := x.(type) {
				case *ast.ValueSpec:
					for i, nm := range d.Names {
						if i < len(d.Values) {
							if rx, mname, _, ok := methodCall(ast.Unparen(d.Values[i])); ok && mname == "GetIterator" && isObj(info, rx, retObj) {
								iterObj = info.Defs[nm]
							}
						}
					}
				case *ast.AssignStmt:
					for i, l := range d.Lhs {
						if i < len(d.Rhs) {
							if rx, mname, _, ok := methodCall(ast.Unparen(d.Rhs[i])); ok && mname == "GetIterator" && isObj(info, rx, retObj) {
								if id, ok := l.(*ast.Ident); ok {
									if iterObj = info.Defs[id]; iterObj == nil {
										iterObj = info.Uses[id]
									}
								}
							}
						}
					}
				}
				return true
			})
		}
		if iterObj == nil {
			r.skip("D2-closure-propagation", construct, c.pos(gbody.Pos()), "no iterator over the returned outputs is created before the read loop")
			r.skip("D3-distribution", construct, c.pos(gbody.Pos()), "no iterator over the returned outputs is created before the read loop")
			continue
		}
		// D2: covering traversal from Start that closes
		okClose, why := coveringTraversalH(c, info, after, iterObj, "CloseQueue", nil)
		if !okClose && strings.HasPrefix(why, "skip:") {
			// the clean-up may be registered up front: defer func() { ToStart; for HasNext { GetNext().CloseQueue() } }()
			for _, s := range gbody.List[:readIdx] {
				if ds, isDefer := s.(*ast.DeferStmt); isDefer {
					if fl, isLit := ast.Unparen(ds.Call.Fun).(*ast.FuncLit); isLit && len(ds.Call.Args) == 0 {
						if ok2, why2 := coveringTraversalH(c, info, fl.Body.List, iterObj, "CloseQueue", nil); ok2 || !strings.HasPrefix(why2, "skip:") {
							okClose, why = ok2, why2
						} else if lone := closesOneOutside(info, fl.Body, iterObj); lone != nil {
							okClose, why = false, fmt.Sprintf("the deferred clean-up closes the output yielded by one GetNext at %s, outside any loop: only the first output is closed", c.pos(lone.Pos()))
						}
					}
				}
			}
			if lone := closesOneOutside(info, &ast.BlockStmt{List: after}, iterObj); lone != nil && strings.HasPrefix(why, "skip:") {
				okClose, why = false, fmt.Sprintf("the output yielded by one GetNext is closed at %s, outside any loop: only the first output is closed", c.pos(lone.Pos()))
			}
		}
		if !okClose && !strings.HasPrefix(why, "skip:") {
			why = "after the input is closed the outputs are not all closed: " + why
		}
		r.verdict("D2-closure-propagation", construct, c.pos(readLoop.Pos()), "after the read loop: ToStart, then every output yielded by GetNext is closed", why)
		if name == "Fork" {
			okDist, why := coveringTraversalH(c, info, readLoop.Body.List, iterObj, "AddValue", valueObj)
			if !okDist && !strings.HasPrefix(why, "skip:") {
				why = "a value read from the input does not reach every output: " + why
			}
			r.verdict("D3-distribution", construct, c.pos(readLoop.Pos()), "each value read is added to every output by a traversal from Start", why)
		} else {
			// Split: one GetNext per iteration whose result gets AddValue(value); wrap check
			_, getNext := cyclicIterator(info, readLoop)
			// more than one advance of the output rotation per value read: some output is skipped
			nAdvance := 0
			inspectNoLit(readLoop.Body, func(x ast.Node) bool {
				if methodCallOn(info, x, iterObj, "GetNext") {
					nAdvance++
				}
				return true
			})
			if nAdvance > 1 {
				r.fail("D3-distribution", construct, c.pos(readLoop.Pos()), fmt.Sprintf("the rotation over the outputs is advanced %d times in one iteration of the read loop: a value can go to an output whose turn it is not (value i no longer lands in output i mod fan-out)", nAdvance))
				continue
			}
			okOne := false
			if getNext != nil {
				// output := iterator.GetNext(); output.AddValue(value)
				inspectNoLit(readLoop.Body, func(x ast.Node) bool {
					if rx, mname, call, ok := methodCall(x); ok && mname == "AddValue" && len(call.Args) == 1 && isObj(info, call.Args[0], valueObj) {
						if id, ok := ast.Unparen(rx).(*ast.Ident); ok {
							if init := initOfIn(info, readLoop.Body, id); init != nil && init == ast.Expr(getNext) {
								okOne = true
							}
						}
						if ast.Unparen(rx) == ast.Expr(getNext) {
							okOne = true // X.GetNext().AddValue(value)
						}
					}
					return true
				})
			}
			nAdds := 0
			inspectNoLit(readLoop.Body, func(x ast.Node) bool {
				if _, mname, _, ok := methodCall(x); ok && mname == "AddValue" {
					nAdds++
				}
				return true
			})
			if getNext == nil {
				r.skip("D3-distribution", construct, c.pos(readLoop.Pos()), "the read loop does not advance the output iterator with one GetNext in its own body")
				continue
			}
			wrap := getNext != nil && wrapCheckFollows(c, info, lg, readLoop, iterObj, getNext, okObj)
			dom := getNext != nil && lg.nodeDominates(readCall, getNext)
			r.check(okOne && nAdds == 1 && wrap && dom, "D3-distribution", construct, c.pos(readLoop.Pos()),
				"each value read goes to exactly the next output in round-robin order; wrap check after every GetNext",
				fmt.Sprintf("Split's loop must give each value read to exactly the output yielded by one GetNext and wrap with `if !HasNext { ToStart }` before the next iteration (adds-to-next-output=%v adds=%d wrap-check=%v read-before-advance=%v)", okOne, nAdds, wrap, dom))
		}
	}
	if qr != nil {
		checkTokenBalanceAtBirth(c, r, "D5-token-balance", qr) // a preloaded input stream delivers every value
	}
	r.floor("D1-waitgroup-pairing", 1)
	r.floor("D2-closure-propagation", 1)
	r.floorSoft("D4-loop-progress", "loops", "no loop is left in the methods this rule looks at")
}

// firstStmt: the first statement that does something (declarations of locals without a call in
// their initial values - the style that declares every local at the top - do nothing that can
// panic or leave).
func firstStmt(b *ast.BlockStmt) ast.Stmt {
	for _, s := range b.List {
		if ds, ok := s.(*ast.DeclStmt); ok {
			calls := false
			ast.Inspect(ds, func(x ast.Node) bool {
				if ce, isCall := x.(*ast.CallExpr); isCall {
					if id, isId := ast.Unparen(ce.Fun).(*ast.Ident); !isId || id.Name != "new" {
						calls = true
					}
				}
				return true
			})
			if !calls {
				continue
			}
		}
		return s
	}
	return nil
}

func callsOnIn(info *types.Info, n ast.Node, obj types.Object, name string) []*ast.CallExpr {
	var out []*ast.CallExpr
	inspectNoLit(n, func(x ast.Node) bool {
		if rx, mname, call, ok := methodCall(x); ok && mname == name && isObj(info, rx, obj) {
			out = append(out, call)
		}
		return true
	})
	return out
}

// initOfIn: initialiser of the variable denoted by id, declared inside n.
func initOfIn(info *types.Info, n ast.Node, id *ast.Ident) ast.Expr {
	obj := info.Uses[id]
	var init ast.Expr
	cnt := 0
	inspectNoLit(n, func(x ast.Node) bool {
		switch s := x.(type) {
		case *ast.ValueSpec:
			for i, nm := range s.Names {
				if info.Defs[nm] == obj && i < len(s.Values) {
					init = ast.Unparen(s.Values[i])
					cnt++
				}
			}
		case *ast.AssignStmt:
			for i, l := range s.Lhs {
				if lid, ok := l.(*ast.Ident); ok && (info.Defs[lid] == obj || info.Uses[lid] == obj) && len(s.Lhs) == len(s.Rhs) {
					init = ast.Unparen(s.Rhs[i])
					cnt++
				}
			}
		}
		return true
	})
	if cnt == 1 {
		return init
	}
	return nil
}

// cyclicIterator finds the single X.GetNext() call in the loop body (outside inner loops).
func cyclicIterator(info *types.Info, loop *ast.ForStmt) (types.Object, *ast.CallExpr) {
	var obj types.Object
	var call *ast.CallExpr
	n := 0
	inspectNoLit(loop.Body, func(x ast.Node) bool {
		if rx, mname, cl, ok := methodCall(x); ok && mname == "GetNext" {
			if id, ok := ast.Unparen(rx).(*ast.Ident); ok {
				obj, call = info.Uses[id], cl
				n++
			}
		}
		return true
	})
	if n != 1 {
		return nil, nil
	}
	return obj, call
}

// wrapCheckFollows: every path from the GetNext call to the next iteration
// passes `if !X.HasNext() { X.ToStart() }`.
func wrapCheckFollows(c *Ctx, info *types.Info, g *FG, loop *ast.ForStmt, iter types.Object, getNext *ast.CallExpr, readOK types.Object) bool {
	// No path from just after the GetNext back to the start of the loop body may both avoid
	// X.ToStart() and avoid the edge on which X.HasNext() is known to be true: on such a path the
	// iterator may sit at its end when GetNext is called again.
	pt, ok := g.after(getNext)
	if !ok {
		return false
	}
	_, body, _ := g.loopBlocks(loop)
	if body == nil {
		return false
	}
	isToStart := func(n ast.Node) bool {
		return nodeHas(n, func(x ast.Node) bool {
			if methodCallOn(info, x, iter, "ToStart") {
				return true
			}
			// ToSlot(0) is ToStart
			if rx, mname, call, ok := methodCall(x); ok && mname == "ToSlot" && len(call.Args) == 1 && isObj(info, rx, iter) {
				if tv, ok := info.Types[call.Args[0]]; ok && tv.Value != nil && tv.Value.String() == "0" {
					return true
				}
			}
			// a declared helper that does the wrap check on the iterator it is handed
			if call, ok := x.(*ast.CallExpr); ok && c != nil {
				for ai, a := range call.Args {
					if isObj(info, a, iter) && wrapsItsArgument(c, call, ai) {
						return true
					}
				}
			}
			return false
		})
	}
	// X.GetSlot() compared with the iterator's size says the same as HasNext
	isSize := func(e ast.Expr) bool {
		e = ast.Unparen(e)
		for i := 0; i < 3; i++ {
			id, ok := e.(*ast.Ident)
			if !ok {
				break
			}
			init := initOfIn(info, g.body, id)
			if init == nil {
				break
			}
			e = ast.Unparen(init)
		}
		return methodCallOn(info, e, iter, "GetSize")
	}
	moreFollow := func(cnd ast.Expr, pol bool) bool {
		be, ok := cnd.(*ast.BinaryExpr)
		if !ok {
			return false
		}
		x, y, op := ast.Unparen(be.X), ast.Unparen(be.Y), be.Op
		if methodCallOn(info, y, iter, "GetSlot") && isSize(x) {
			x, y = y, x
			switch op {
			case token.LSS:
				op = token.GTR
			case token.GTR:
				op = token.LSS
			case token.LEQ:
				op = token.GEQ
			case token.GEQ:
				op = token.LEQ
			}
		}
		if !methodCallOn(info, x, iter, "GetSlot") || !isSize(y) {
			return false
		}
		switch op {
		case token.EQL, token.GEQ:
			return !pol // slot == size is false: more values follow
		case token.NEQ, token.LSS:
			return pol
		}
		return false
	}
	// the read's ok result ends the loop only when it is (part of) the loop's own condition
	if readOK != nil {
		inCond := false
		if loop.Cond != nil {
			for _, cj := range conjuncts(loop.Cond) {
				if id, ok := cj.(*ast.Ident); ok && info.Uses[id] == readOK {
					inCond = true
				}
			}
		}
		if !inCond {
			readOK = nil
		}
	}
	skip, _ := g.exists(pathQuery{
		from: pt,
		stop: isToStart,
		edgeOK: func(cond ast.Expr, pol bool) bool {
			c := ast.Unparen(cond)
			for {
				u, ok := c.(*ast.UnaryExpr)
				if !ok || u.Op != token.NOT {
					break
				}
				c, pol = ast.Unparen(u.X), !pol
			}
			if methodCallOn(info, c, iter, "HasNext") && pol {
				return false // more values follow: no wrap needed on this edge
			}
			// the answer of HasNext kept in a local that is defined once, after the GetNext
			if id, ok := c.(*ast.Ident); ok && pol {
				if init := initOfIn(info, g.body, id); init != nil && methodCallOn(info, init, iter, "HasNext") && init.Pos() > getNext.Pos() && init.Pos() < loop.End() {
					return false
				}
			}
			if moreFollow(c, pol) {
				return false
			}
			if id, ok := c.(*ast.Ident); ok && readOK != nil && info.Uses[id] == readOK && !pol {
				return false // the read found the input closed: the loop is being left
			}
			return true
		},
		goalBlk: func(b *cfg.Block) bool { return b == body },
	})
	return !skip
}

// startsFromStart: before the loop is entered the iterator is at Start:
// a ToStart (or its creation) with no moving call in between.
func startsFromStart(info *types.Info, body *ast.BlockStmt, loop *ast.ForStmt, iter types.Object) bool {
	atStart := false
	for _, s := range body.List {
		if s == ast.Stmt(loop) {
			return atStart
		}
		inspectNoLit(s, func(x ast.Node) bool {
			for _, m := range []string{"GetNext", "GetPrevious", "ToEnd", "ToSlot"} {
				if methodCallOn(info, x, iter, m) {
					atStart = false
				}
			}
			if methodCallOn(info, x, iter, "ToStart") {
				atStart = true
			}
			// a fresh iterator stands at the start
			if lhs, rhs, ok := multiDef(x); ok && len(lhs) == 1 && identObj(info, lhs[0]) == iter {
				if _, mname, _, ok := methodCall(ast.Unparen(rhs)); ok && mname == "GetIterator" {
					atStart = true
				}
			}
			return true
		})
	}
	return false
}

// coveringTraversal: the statement list contains  X.ToStart()  directly followed
// (no moving call in between) by  for X.HasNext() { o := X.GetNext(); o.<method>(arg) }.
func coveringTraversal(info *types.Info, list []ast.Stmt, iter types.Object, method string, arg types.Object) (bool, string) {
	return coveringTraversalWith(info, list, iter, method, arg, nil)
}

// coveringTraversalWith: as coveringTraversal; action, when given, is a function-typed object
// (a parameter of a generic "for each from the start" helper): calling it with the visited
// element counts as the method call (the caller has checked what the action is).
func coveringTraversalWith(info *types.Info, list []ast.Stmt, iter types.Object, method string, arg types.Object, action types.Object) (bool, string) {
	atStart, atEnd := false, false
	for _, s := range list {
		fwd, bwd := false, false
		if fs, ok := s.(*ast.ForStmt); ok && fs.Cond != nil {
			fwd = findIterCond(info, fs.Cond, "HasNext") == iter
			bwd = !fwd && findIterCond(info, fs.Cond, "HasPrevious") == iter
		}
		if fs, ok := s.(*ast.ForStmt); ok && (fwd || bwd) {
			getM, toM := "GetNext", "ToStart"
			if bwd {
				getM, toM = "GetPrevious", "ToEnd"
			}
			// for X.ToStart(); X.HasNext(); { ... }
			if es, ok := fs.Init.(*ast.ExprStmt); ok && methodCallOn(info, es.X, iter, toM) {
				atStart, atEnd = fwd, bwd
			}
			if fwd && !atStart {
				return false, "the traversal over the outputs does not start from ToStart(): outputs before the iterator's current slot are skipped"
			}
			if bwd && !atEnd {
				return false, "the backward traversal over the outputs does not start from ToEnd(): outputs after the iterator's current slot are skipped (all of them when the iterator still stands at the start)"
			}
			if _, isCall := ast.Unparen(fs.Cond).(*ast.CallExpr); !isCall {
				return false, "the traversal stops on " + exprStr(fs.Cond) + ", not only at the end of the outputs"
			}
			// body: o := X.GetNext(); o.method(arg)  or  X.GetNext().method(arg)  or  action(X.GetNext())
			okBody := false
			var elem types.Object
			for _, bs := range fs.Body.List {
				inspectNoLit(bs, func(x ast.Node) bool {
					switch d := x.(type) {
					case *ast.ValueSpec:
						for i, nm := range d.Names {
							if i < len(d.Values) && methodCallOn(info, ast.Unparen(d.Values[i]), iter, getM) {
								elem = info.Defs[nm]
							}
						}
					case *ast.AssignStmt:
						for i, l := range d.Lhs {
							if i < len(d.Rhs) && methodCallOn(info, ast.Unparen(d.Rhs[i]), iter, getM) {
								if id, ok := l.(*ast.Ident); ok {
									if elem = info.Defs[id]; elem == nil {
										elem = info.Uses[id]
									}
								}
							}
						}
					}
					return true
				})
				es, ok := bs.(*ast.ExprStmt)
				if !ok {
					continue
				}
				isElem := func(e ast.Expr) bool {
					e = ast.Unparen(e)
					return (elem != nil && isObj(info, e, elem)) || methodCallOn(info, e, iter, getM)
				}
				if rx, mname, call, ok := methodCall(es.X); ok && mname == method && isElem(rx) {
					if arg == nil && len(call.Args) == 0 {
						okBody = true
					}
					if arg != nil && len(call.Args) == 1 && isObj(info, call.Args[0], arg) {
						okBody = true
					}
				}
				if call, ok := ast.Unparen(es.X).(*ast.CallExpr); ok && action != nil && isObj(info, call.Fun, action) && len(call.Args) == 1 && isElem(call.Args[0]) {
					okBody = true
				}
			}
			if !okBody {
				called := false
				inspectNoLit(fs.Body, func(x ast.Node) bool {
					if _, mname, _, ok := methodCall(x); ok && mname == method {
						called = true
					}
					if call, ok := x.(*ast.CallExpr); ok && action != nil && isObj(info, call.Fun, action) {
						called = true
					}
					return true
				})
				if !called {
					return false, "skip: the traversal found does not call " + method + " at all"
				}
				return false, "the traversal does not call " + method + " on each output it visits (unconditionally, at the top level of the loop body)"
			}
			return true, ""
		}
		inspectNoLit(s, func(x ast.Node) bool {
			for _, m := range []string{"GetNext", "GetPrevious", "ToEnd", "ToSlot"} {
				if methodCallOn(info, x, iter, m) {
					atStart, atEnd = false, false
				}
			}
			return true
		})
		if es, ok := s.(*ast.ExprStmt); ok && methodCallOn(info, es.X, iter, "ToStart") {
			atStart, atEnd = true, false
		}
		if es, ok := s.(*ast.ExprStmt); ok && methodCallOn(info, es.X, iter, "ToEnd") {
			atStart, atEnd = false, true
		}
	}
	return false, "skip: no traversal `for X.HasNext() { ... X.GetNext() ... }` over the outputs at the top level"
}

// coveringTraversalH: coveringTraversal, also looking into an unexported helper of the
// repository that is handed the iterator at the top level of the list.
func coveringTraversalH(c *Ctx, info *types.Info, list []ast.Stmt, iter types.Object, method string, arg types.Object) (bool, string) {
	ok, why := coveringTraversal(info, list, iter, method, arg)
	if ok || !strings.HasPrefix(why, "skip:") {
		return ok, why
	}
	for _, s := range list {
		es, isExpr := s.(*ast.ExprStmt)
		if !isExpr {
			continue
		}
		call, isCall := ast.Unparen(es.X).(*ast.CallExpr)
		if !isCall {
			continue
		}
		cf := calleeOf(info, call)
		if cf == nil || cf.Exported() {
			continue
		}
		hd := c.declOf(cf.Origin())
		if hd == nil || hd.Body == nil {
			continue
		}
		hinfo := c.infoFor(hd)
		hp := paramObjs(hinfo, hd)
		for i, a := range call.Args {
			if i < len(hp) && isObj(info, a, iter) {
				var harg types.Object
				hasAction := false
				for j := range call.Args {
					if j < len(hp) {
						if _, isSig := hp[j].Type().Underlying().(*types.Signature); isSig {
							hasAction = true
						}
					}
				}
				if arg != nil && !hasAction {
					for j, b := range call.Args {
						if j < len(hp) && isObj(info, b, arg) {
							harg = hp[j]
						}
					}
					if harg == nil {
						continue
					}
				}
				// a generic "from the start, for each" helper: the action is an argument of the call
				for j, b := range call.Args {
					if j >= len(hp) {
						continue
					}
					if _, isSig := hp[j].Type().Underlying().(*types.Signature); !isSig {
						continue
					}
					if !actionIs(c, info, b, method, arg) {
						return false, "skip: the action handed to " + cf.Name() + " is not recognisably " + method
					}
					return coveringTraversalWith(hinfo, hd.Body.List, hp[i], method, nil, hp[j])
				}
				return coveringTraversal(hinfo, hd.Body.List, hp[i], method, harg)
			}
		}
	}
	return ok, why
}

// passedToHelper: obj is an argument of a call of an unexported repository function in list.
func passedToHelper(c *Ctx, info *types.Info, list []ast.Stmt, obj types.Object) bool {
	found := false
	for _, s := range list {
		inspectNoLit(s, func(x ast.Node) bool {
			if call, ok := x.(*ast.CallExpr); ok {
				if cf := calleeOf(info, call); cf != nil && !cf.Exported() && c.declOf(cf.Origin()) != nil {
					for _, a := range call.Args {
						if isObj(info, a, obj) {
							found = true
						}
					}
				}
			}
			return true
		})
	}
	return found
}

var _ = strings.Join

// actionIs: e denotes "call <method> on the element (with arg)": a method expression
// T.method / a method value, or a function literal (directly or through a local variable) whose
// body is the single call p.method(arg) on its parameter.
func actionIs(c *Ctx, info *types.Info, e ast.Expr, method string, arg types.Object) bool {
	e = ast.Unparen(e)
	if se, ok := e.(*ast.SelectorExpr); ok && se.Sel.Name == method && arg == nil {
		return true // QueueLike[V].CloseQueue
	}
	var lit *ast.FuncLit
	switch x := e.(type) {
	case *ast.FuncLit:
		lit = x
	}
	if lit == nil {
		if id, ok := e.(*ast.Ident); ok {
			lit = funcLitOf(c, info, id)
		}
	}
	if lit == nil || lit.Type.Params == nil || len(lit.Type.Params.List) != 1 || len(lit.Type.Params.List[0].Names) != 1 || len(lit.Body.List) != 1 {
		return false
	}
	p := info.Defs[lit.Type.Params.List[0].Names[0]]
	es, ok := lit.Body.List[0].(*ast.ExprStmt)
	if !ok {
		return false
	}
	rx, mname, call, ok := methodCall(es.X)
	if !ok || mname != method || !isObj(info, rx, p) {
		return false
	}
	if arg == nil {
		return len(call.Args) == 0
	}
	return len(call.Args) == 1 && isObj(info, call.Args[0], arg)
}

// funcLitOf: the function literal a local variable is initialised with.
func funcLitOf(c *Ctx, info *types.Info, id *ast.Ident) *ast.FuncLit {
	o := info.Uses[id]
	if o == nil {
		return nil
	}
	var lit *ast.FuncLit
	for _, fd := range c.allFuncDecls("collection") {
		if fd.Body == nil || !(fd.Pos() <= o.Pos() && o.Pos() <= fd.End()) {
			continue
		}
		ast.Inspect(fd.Body, func(x ast.Node) bool {
			if lhs, rhs, ok := multiDef(x); ok && len(lhs) == 1 && identObj(info, lhs[0]) == o {
				if fl, ok := ast.Unparen(rhs).(*ast.FuncLit); ok {
					lit = fl
				}
			}
			return true
		})
	}
	return lit
}

// touchesBefore: does the statement list of body move or rewind the iterator before the loop?
func touchesBefore(info *types.Info, body *ast.BlockStmt, loop *ast.ForStmt, iter types.Object) bool {
	touched := false
	for _, s := range body.List {
		if s == ast.Stmt(loop) {
			break
		}
		inspectNoLit(s, func(x ast.Node) bool {
			for _, m := range []string{"GetNext", "GetPrevious", "ToEnd", "ToSlot", "ToStart"} {
				if methodCallOn(info, x, iter, m) {
					touched = true
				}
			}
			return true
		})
	}
	return touched
}

// iteratorStateAt: where the iterator stands when control reaches pos in fd, judged from the
// straight-line statements of fd before pos: 1 at the start, 0 moved, -1 unknown.  An iterator
// that comes out of a private helper (a result of a call) is followed into that helper.
func iteratorStateAt(c *Ctx, info *types.Info, fd *ast.FuncDecl, iter types.Object, pos token.Pos, depth int) int {
	if depth > 2 || fd == nil || fd.Body == nil {
		return -1
	}
	state := -1
	for _, s := range fd.Body.List {
		if s.Pos() >= pos || (s.Pos() < pos && pos < s.End()) {
			// reached the statement that holds pos: only what precedes pos inside it counts, and
			// the rule keeps to whole statements
			break
		}
		// definition of the iterator
		ast.Inspect(s, func(x ast.Node) bool {
			if _, isLit := x.(*ast.FuncLit); isLit {
				return false
			}
			var lhs []ast.Expr
			var rhs []ast.Expr
			switch d := x.(type) {
			case *ast.AssignStmt:
				lhs, rhs = d.Lhs, d.Rhs
			case *ast.ValueSpec:
				for _, nm := range d.Names {
					lhs = append(lhs, nm)
				}
				rhs = d.Values
			default:
				return true
			}
			for i, l := range lhs {
				id, ok := l.(*ast.Ident)
				if !ok || !(info.Defs[id] == iter || info.Uses[id] == iter) {
					continue
				}
				switch {
				case len(rhs) == len(lhs):
					if _, mname, _, ok := methodCall(ast.Unparen(rhs[i])); ok && mname == "GetIterator" {
						state = 1
					} else {
						state = -1
					}
				case len(rhs) == 1:
					state = -1
					if call, ok := ast.Unparen(rhs[0]).(*ast.CallExpr); ok {
						if cf := calleeOf(info, call); cf != nil && !cf.Exported() {
							if hd := c.declOf(cf); hd != nil && hd.Body != nil && c.infoFor(hd) == info && hd.Type.Results != nil {
								// the i-th result: a named result, or the identifier returned
								var robj types.Object
								k := 0
								for _, f := range hd.Type.Results.List {
									for _, nm := range f.Names {
										if k == i {
											robj = info.Defs[nm]
										}
										k++
									}
								}
								if robj == nil {
									inspectNoLit(hd.Body, func(y ast.Node) bool {
										if rs, ok := y.(*ast.ReturnStmt); ok && i < len(rs.Results) {
											robj = identObj(info, rs.Results[i])
										}
										return true
									})
								}
								if robj != nil {
									state = iteratorStateAt(c, info, hd, robj, hd.Body.End(), depth+1)
								}
							}
						}
					}
				}
			}
			return true
		})
		conditional := false
		switch s.(type) {
		case *ast.IfStmt, *ast.ForStmt, *ast.RangeStmt, *ast.SwitchStmt, *ast.TypeSwitchStmt, *ast.SelectStmt:
			conditional = true
		}
		inspectNoLit(s, func(x ast.Node) bool {
			for _, m := range []string{"GetNext", "GetPrevious", "ToEnd", "ToSlot"} {
				if methodCallOn(info, x, iter, m) {
					if conditional {
						state = -1
					} else {
						state = 0
					}
				}
			}
			if methodCallOn(info, x, iter, "ToStart") {
				if conditional {
					if state != 1 {
						state = -1
					}
				} else {
					state = 1
				}
			}
			return true
		})
	}
	return state
}

// wrapsItsArgument: the declared callee of call leaves the iterator it receives as argument ai
// either with a next value or at its start, on every path (`if !it.HasNext() { it.ToStart() }`).
func wrapsItsArgument(c *Ctx, call *ast.CallExpr, ai int) bool {
	var hd *ast.FuncDecl
	for _, role := range []string{"collection", "agent"} {
		if info := c.info(role); info != nil {
			if fn := calleeOf(info, call); fn != nil {
				hd = c.declOf(fn)
			}
		}
	}
	if hd == nil || hd.Body == nil {
		return false
	}
	hinfo := c.infoFor(hd)
	if hinfo == nil {
		return false
	}
	ps := paramObjs(hinfo, hd)
	if ai >= len(ps) {
		return false
	}
	p := ps[ai]
	hg := newFG(hinfo, hd.Body)
	moved := false
	ast.Inspect(hd.Body, func(x ast.Node) bool {
		for _, m := range []string{"GetNext", "GetPrevious", "ToEnd", "ToSlot"} {
			if methodCallOn(hinfo, x, p, m) {
				moved = true
			}
		}
		return true
	})
	if moved {
		return false
	}
	skip, _ := hg.exists(pathQuery{
		from: point{hg.entry(), 0},
		stop: func(n ast.Node) bool {
			return nodeHas(n, func(x ast.Node) bool { return methodCallOn(hinfo, x, p, "ToStart") })
		},
		edgeOK: func(cond ast.Expr, pol bool) bool {
			cd := ast.Unparen(cond)
			for {
				u, ok := cd.(*ast.UnaryExpr)
				if !ok || u.Op != token.NOT {
					break
				}
				cd, pol = ast.Unparen(u.X), !pol
			}
			if methodCallOn(hinfo, cd, p, "HasNext") && pol {
				return false
			}
			return true
		},
		goalExit: func(kind int, _ *cfg.Block) bool { return kind == exitReturn },
	})
	return !skip
}

// closesOneOutside: a CloseQueue on the queue yielded by iter.GetNext() that is not inside any
// loop of body: one output is closed, not each of them.
func closesOneOutside(info *types.Info, body *ast.BlockStmt, iter types.Object) ast.Node {
	var lone ast.Node
	inLoop := map[ast.Node]bool{}
	for _, l := range loopsIn(body) {
		ast.Inspect(l, func(x ast.Node) bool {
			if x != nil {
				inLoop[x] = true
			}
			return true
		})
	}
	inspectNoLit(body, func(x ast.Node) bool {
		rx, mname, call, ok := methodCall(x)
		if !ok || mname != "CloseQueue" || inLoop[ast.Node(call)] {
			return true
		}
		src := ast.Unparen(rx)
		if id, isId := src.(*ast.Ident); isId {
			if init := initOfIn(info, body, id); init != nil {
				src = ast.Unparen(init)
			}
		}
		if methodCallOn(info, src, iter, "GetNext") {
			lone = call
		}
		return true
	})
	return lone
}
