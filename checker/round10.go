package main

// What the rules of round 10 add to the "decided" clauses of each property (appended to the
// Decided text of the property; the rules themselves are in golints2.go, queuereset.go,
// randlimit.go and the files of the properties).

const shapeSentence = " Round 10, in the functions of the files the property is anchored in: no guard repeats the condition of an earlier guard that has already left (G1); no loop is governed by a flag that is false when the loop is reached (G2); no result of a call is overwritten before it is read (G3); every computed value that is assigned to a local can reach a read (G4); no test guards nothing - `if c { continue }` as the last statement of a round (G5); the capacity of a Go array argument is not taken for the number of its values (G6); what was computed from two operands is exchanged with them (G7); a zero-based loop over the members of a value does not start at one (G8); no two callers hand a private function the same two integer values in opposite order (G9); an unconditional loop over a fresh iterator does not take a value in its first round before anything has asked for one (G10); no `break` that ends a case of a switch stands in a loop it was meant to leave (G11); a value of the element type is not asked whether it is \"defined\" (G12); a deferred function that recovers raises what it caught again (G13); position zero of a zero-based search is a hit (G14); a counter field that is stepped up and down is left as it was found on every normal exit (G15)."

var round10Decided = map[string]string{
	"C01": shapeSentence,
	"C02": shapeSentence,
	"C03": shapeSentence,
	"C04": shapeSentence + " The list of the values and the token channel are discarded together; a channel that replaces the token channel has the capacity of the queue; the default capacity stands in only for a request of zero.",
	"C05": shapeSentence + " The list of the values and the token channel are discarded together; a replacement channel has the capacity of the queue; a loop that reads a queue until it is closed is entered.",
	"C06": shapeSentence + " The list of the values and the token channel of a queue are discarded together; a clean-up that closes the outputs may be deferred, and closes every output, not one.",
	"C07": shapeSentence,
	"C08": shapeSentence,
	"C09": shapeSentence + " The limit handed to the random source is at least 1 under the tests that govern the call.",
	"C10": shapeSentence + " An arm that is selected by the name of one kind of collection answers with that name.",
	"C11": shapeSentence,
	"C12": shapeSentence + " In a table of names no constant carries the name of another one.",
	"C13": shapeSentence + " The default capacity stands in only for a request of zero.",
	"C14": shapeSentence,
	"C15": shapeSentence,
	"C16": shapeSentence,
	"C17": shapeSentence,
	"C18": shapeSentence,
	"C19": shapeSentence + " A registry is handed to a helper with one and the same mutex everywhere.",
	"C20": shapeSentence,
}
