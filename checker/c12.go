package main

// C12 — ParseSource is total: any input ends in a value or a located syntax diagnostic (structural clauses).

import (
	"fmt"
	"go/ast"
	"go/token"
	"go/types"
	"sort"
	"strings"

	"golang.org/x/tools/go/cfg"
)

func init() {
	register(&propInfo{
		ID:      "C12",
		Engines: "PATH (definite assignment, must-pass, dominance on go/cfg), FLOW-style assertion rule on typed syntax, LANG (epsilon-freeness of the token automata), LP (scan loop form)",
		Decided: "D1 every parse method that reports failure (ok possibly false) returns a token that was assigned on every path to that return: the diagnostic built from it never dereferences nil; " +
			"D2 no type assertion on parsed data is unchecked unless the operand's static type already implements the asserted type; " +
			"D3 the function that reads the token queue turns an error token into the diagnostic panic on every path before it hands the token on; " +
			"D4 the scanner goroutine cannot spin: every arm of its scan loop consumes at least one rune (no token pattern accepts the empty string, the cursor advances by the match length) or leaves the loop; " +
			"D5 the scanner goroutine is not abandoned: it closes the token queue after its loop, and ParseSource registers, before anything that can panic, a deferred drain that reads the queue until it is closed; " +
			"D6 every loop of the parser and scanner is in a terminating (or blocking-read) form." +
			" Also: the functions that build a diagnostic take constant-bound slices only of operands whose length an enclosing condition establishes; between the test of the bound and the matchers nothing moves the cursor; the matcher sees the whole rest of the input; parser state is re-created per parse." +
			" Round 7: an index guard that compares the index with the length excludes the length itself (all functions of the package, closures included)." +
			" Rounds 8-9: the value handed to the token constructor has not passed through a function that edits inside the text; an AddValue on a bounded collection is not under a guard that admits the capacity; an array indexed by an enumeration covers its largest constant.",
		NotDecided: "absence of every other runtime error on arbitrary input, the line/column arithmetic of the diagnostic, stack depth (recursion depth equals input nesting, unbounded by design).",
		Run:        runC12,
	})
}

func runC12(c *Ctx, r *Rec) {
	info := c.info("cdcn")
	parser := c.mustImpl(r, "bind", "cdcn", "ParserLike")
	st := c.scanTables()
	if parser == nil {
		return
	}
	if len(st.problems) > 0 || st.scanLoop == nil {
		r.skip("bind", "cdcn.scanner-tables", "", "cannot extract the scanner tables: "+strings.Join(st.problems, "; "))
		return
	}
	pms := c.methodsOf(parser)
	tokIface := c.named("cdcn", "TokenLike")

	// ---- D1 definite non-nil token
	nD1 := 0
	for _, name := range sortedKeys(pms) {
		fd := pms[name]
		fn := c.funcOf(fd)
		sig := fn.Type().(*types.Signature)
		ti, bi := -1, -1
		for i := 0; i < sig.Results().Len(); i++ {
			t := sig.Results().At(i).Type()
			if n := derefNamed(t); n != nil && tokIface != nil && n.Origin() == tokIface.Origin() {
				ti = i
			}
			if isBoolType(t) {
				bi = i
			}
		}
		if ti < 0 || bi < 0 || sig.Results().Len() < 3 {
			continue // the parse methods hand back (what was parsed, the token, ok)
		}
		nD1++
		construct := c.fdName(fd)
		// named result object
		var tokObj types.Object
		if fd.Type.Results != nil {
			idx := 0
			for _, f := range fd.Type.Results.List {
				for _, nm := range f.Names {
					if idx == ti {
						tokObj = info.Defs[nm]
					}
					idx++
				}
				if len(f.Names) == 0 {
					idx++
				}
			}
		}
		g := newFG(info, fd.Body)
		env := &symEnv{info: info}
		bad := ""
		inspectNoLit(fd.Body, func(x ast.Node) bool {
			rs, ok := x.(*ast.ReturnStmt)
			if !ok || bad != "" {
				return true
			}
			var tokExpr, okExpr ast.Expr
			switch {
			case len(rs.Results) == sig.Results().Len():
				tokExpr, okExpr = rs.Results[ti], rs.Results[bi]
			case len(rs.Results) == 0:
				// naked return: named results
			default:
				return true
			}
			if okExpr != nil {
				if tv := info.Types[okExpr]; tv.Value != nil && tv.Value.String() == "true" {
					return true // success: the token is not used for a diagnostic
				}
			}
			var obj types.Object
			if tokExpr != nil {
				if tv := info.Types[tokExpr]; tv.IsNil() {
					bad = fmt.Sprintf("the failing return at %s hands back a nil token: the caller's diagnostic dereferences it", c.pos(rs.Pos()))
					return true
				}
				obj = identObj(info, tokExpr)
			} else {
				obj = tokObj
			}
			if obj == nil {
				return true
			}
			// parameters are assigned by the caller
			for _, p := range paramObjs(info, fd) {
				if p == obj {
					return true
				}
			}
			key := objKey(obj)
			unassigned, _ := g.exists(pathQuery{from: point{g.entry(), 0},
				atLeastOnce: g.nonEmptyRangeLoops(c, info, fd.Body),
				stop:        func(n ast.Node) bool { return n != ast.Node(rs) && assignedIn(info, n, key, env) },
				goalNode:    func(n ast.Node) bool { return n == ast.Node(rs) }})
			if unassigned {
				bad = fmt.Sprintf("a path reaches the failing return at %s without ever assigning the token result %s: it is nil, and the caller's diagnostic (token.GetLine()) is a nil dereference instead of a located syntax error", c.pos(rs.Pos()), obj.Name())
			}
			return true
		})
		r.check(bad == "", "D1-diagnostic-has-token", construct, c.pos(fd.Pos()), "every failing return hands back a token assigned on all paths", bad)
	}
	r.count("parse methods with (token, ok) results", nD1)
	r.floor("D1-diagnostic-has-token", 3)
	checkDiagnosticBuilders(c, r, "D1-diagnostic-cannot-fail")
	checkIndexGuardAdmitsLength(c, r, "D1-guard-excludes-the-length", c.allFuncDecls("cdcn"))
	checkGuardExcludesCapacity(c, r, "D1-guard-excludes-the-capacity", "cdcn")
	checkEnumIndexedTables(c, r, "D1-table-covers-the-enumeration", "cdcn")
	checkNameTables(c, r, "D1-names-are-their-own", "cdcn")
	shapeLints(c, r, c.allFuncDecls("cdcn"))

	// ---- D2 unchecked assertions
	nA := 0
	for _, name := range sortedKeys(pms) {
		fd := pms[name]
		seq := 0
		// comma-ok assertions
		commaOK := map[*ast.TypeAssertExpr]bool{}
		ast.Inspect(fd.Body, func(x ast.Node) bool {
			if lhs, rhs, ok := multiDef(x); ok && len(lhs) == 2 {
				if ta, ok := ast.Unparen(rhs).(*ast.TypeAssertExpr); ok {
					commaOK[ta] = true
				}
			}
			return true
		})
		ast.Inspect(fd.Body, func(x ast.Node) bool {
			ta, ok := x.(*ast.TypeAssertExpr)
			if !ok || ta.Type == nil {
				return true
			}
			nA++
			seq++
			construct := fmt.Sprintf("%s/assert#%d", c.fdName(fd), seq)
			from, to := info.Types[ta.X].Type, info.Types[ta.Type].Type
			switch {
			case commaOK[ta]:
				r.ok("D2-checked-assertions", construct, c.pos(ta.Pos()), "comma-ok form")
			case from != nil && to != nil && isInterfaceType(to) && types.Implements(from, to.Underlying().(*types.Interface)):
				r.ok("D2-checked-assertions", construct, c.pos(ta.Pos()), "the operand's static type already implements the asserted interface")
			default:
				r.fail("D2-checked-assertions", construct, c.pos(ta.Pos()), fmt.Sprintf("unchecked assertion %s.(%s) on parsed data: an item of another kind (for example `[1, 2](Catalog)`) ends in a Go interface-conversion runtime error instead of a located syntax diagnostic", exprStr(ta.X), exprStr(ta.Type)))
			}
			return true
		})
	}
	r.count("type assertions", nA)
	r.floor("D2-checked-assertions", 1)

	// ---- D3 error tokens become diagnostics
	errTok := c.Pkgs["cdcn"].Types.Scope().Lookup("ErrorToken")
	nReaders := 0
	for _, name := range sortedKeys(pms) {
		fd := pms[name]
		var read ast.Node
		var tokObj types.Object
		ast.Inspect(fd.Body, func(x ast.Node) bool {
			if lhs, rhs, ok := multiDef(x); ok && len(lhs) == 2 {
				if _, mname, _, ok := methodCall(ast.Unparen(rhs)); ok && mname == "RemoveHead" {
					read = x
					tokObj = identObj(info, lhs[0])
				}
			}
			return true
		})
		if read == nil || tokObj == nil {
			continue
		}
		// a reader that only discards tokens is exempt
		if id, ok := tokObj.(*types.Var); ok && id.Name() == "_" {
			continue
		}
		returnsTok := false
		inspectNoLit(fd.Body, func(x ast.Node) bool {
			if rs, ok := x.(*ast.ReturnStmt); ok {
				for _, e := range rs.Results {
					if isObj(info, e, tokObj) {
						returnsTok = true
					}
				}
			}
			return true
		})
		if !returnsTok {
			continue
		}
		nReaders++
		construct := c.fdName(fd)
		// verdictIn: in function hfd the token bound to tokObj by statement read reaches a return only through
		// the test  token.GetType() == ErrorToken  whose true edge panics
		var verdictIn func(hfd *ast.FuncDecl, read ast.Node, tokObj types.Object, depth int) string
		verdictIn = func(hfd *ast.FuncDecl, read ast.Node, tokObj types.Object, depth int) string {
			g := newFG(info, hfd.Body)
			var check ast.Expr
			ast.Inspect(hfd.Body, func(x ast.Node) bool {
				is, ok := x.(*ast.IfStmt)
				if cc, isCase := x.(*ast.CaseClause); isCase && len(cc.List) == 1 {
					// the same test written as a case of a tagless switch
					is, ok = &ast.IfStmt{If: cc.Pos(), Cond: cc.List[0], Body: &ast.BlockStmt{Lbrace: cc.Colon, List: cc.Body, Rbrace: cc.End()}}, true
				}
				if !ok {
					return true
				}
				// the test may be one conjunct of the condition (unread && token.GetType() == ErrorToken)
				var conj []ast.Expr
				var split func(e ast.Expr)
				split = func(e ast.Expr) {
					if b, ok := ast.Unparen(e).(*ast.BinaryExpr); ok && b.Op == token.LAND {
						split(b.X)
						split(b.Y)
						return
					}
					conj = append(conj, ast.Unparen(e))
				}
				split(is.Cond)
				for _, cj := range conj {
					be, ok := cj.(*ast.BinaryExpr)
					if !ok || be.Op != token.EQL {
						continue
					}
					for _, pr := range [][2]ast.Expr{{be.X, be.Y}, {be.Y, be.X}} {
						rx, mname, _, ok := methodCall(ast.Unparen(pr[0]))
						id, isId := ast.Unparen(pr[1]).(*ast.Ident)
						if ok && mname == "GetType" && isObj(info, rx, tokObj) && isId && info.Uses[id] == errTok {
							panics := false
							for _, s := range is.Body.List {
								if es, ok := s.(*ast.ExprStmt); ok {
									if call, ok := es.X.(*ast.CallExpr); ok && noReturnCall(info, call) {
										panics = true
									}
								}
							}
							if panics {
								check = is.Cond
							}
						}
					}
				}
				return true
			})
			if check == nil {
				// a private reader may leave the test to the methods that call it
				if fn := c.funcOf(hfd); fn != nil && !fn.Exported() && depth < 2 {
					callers, worst := 0, ""
					for _, cname := range sortedKeys(pms) {
						cfd := pms[cname]
						if cfd == hfd {
							continue
						}
						ast.Inspect(cfd.Body, func(x ast.Node) bool {
							lhs, rhs, ok := multiDef(x)
							if !ok || len(lhs) < 1 {
								return true
							}
							call, isCall := ast.Unparen(rhs).(*ast.CallExpr)
							if !isCall {
								return true
							}
							if cf := calleeOf(info, call); cf == nil || cf.Origin() != fn.Origin() {
								return true
							}
							if o := identObj(info, lhs[0]); o != nil {
								callers++
								if v := verdictIn(cfd, x, o, depth+1); v != "" {
									worst = v
								}
							}
							return true
						})
					}
					if callers > 0 {
						return worst
					}
				}
				return "the token read from the queue is returned without the test `token.GetType() == ErrorToken -> diagnostic panic`: an illegal character is then treated as an ordinary unexpected token or silently skipped"
			}
			if pt, ok := g.after(read); ok {
				skip, _ := g.exists(pathQuery{from: pt,
					stop: func(n ast.Node) bool { return containsNode(n, check) || containsNode(check, n) },
					goalNode: func(n ast.Node) bool {
						rs, ok := n.(*ast.ReturnStmt)
						if !ok {
							return false
						}
						for _, e := range rs.Results {
							if isObj(info, e, tokObj) {
								return true
							}
						}
						return false
					}})
				if skip {
					return "a path from the queue read to the return of the token bypasses the error-token test"
				}
			}
			return ""
		}
		bad := verdictIn(fd, read, tokObj, 0)
		r.check(bad == "", "D3-error-token-diagnostic", construct, c.pos(fd.Pos()), "every path from the queue read to the return passes the error-token test, whose true edge panics with the diagnostic", bad)
	}
	r.count("token readers", nReaders)
	r.floorSoft("D3-error-token-diagnostic", "cdcn.parser/token-readers", "no parser method reads the token queue itself (the read sits in a private type of its own)")

	// ---- D4 scanner cannot spin
	al := newAlphabet()
	for _, src := range st.matchers {
		if re, err := parseRegex(src); err == nil {
			al.addRegexp(re)
		}
	}
	al.freeze()
	var tn []string
	for n := range st.matchers {
		tn = append(tn, n)
	}
	sort.Strings(tn)
	for _, n := range tn {
		re, err := parseRegex(st.matchers[n])
		if err != nil {
			r.skip("D4-no-empty-token", "cdcn/token:"+st.names[n], c.pos(st.matcherPos[n]), err.Error())
			continue
		}
		d, err := dfaFromRegexp(al, re)
		if err != nil {
			r.skip("D4-no-empty-token", "cdcn/token:"+st.names[n], c.pos(st.matcherPos[n]), err.Error())
			continue
		}
		r.check(!d.acceptsEmpty(), "D4-no-empty-token", "cdcn/token:"+st.names[n], c.pos(st.matcherPos[n]), "the pattern does not accept the empty string",
			fmt.Sprintf("the %s pattern /%s/ accepts the empty string: the scan loop matches it without consuming input and never terminates", st.names[n], st.matchers[n]))
	}
	r.floor("D4-no-empty-token", 12)
	checkScanLoop(c, r, info, st)

	// ---- D4b positions are counted in runes: no byte length of a string flows into scanner state
	{
		sms0 := c.methodsOf(st.scanner)
		bad := ""
		// the state that is counted in runes: the fields a token's line and column are made from,
		// and the fields that index or slice the rune array (a byte offset into a text kept
		// alongside is a byte count by design)
		runeState := map[*types.Var]bool{}
		for _, name := range sortedKeys(sms0) {
			ast.Inspect(sms0[name].Body, func(x ast.Node) bool {
				switch e := x.(type) {
				case *ast.CallExpr:
					if rx, mname, call, ok := methodCall(e); ok && mname == "Make" && len(call.Args) >= 3 {
						if tn := derefNamed(info.TypeOf(rx)); tn != nil && strings.HasPrefix(tn.Obj().Name(), "Token") {
							for _, a := range call.Args[:2] {
								ast.Inspect(resolveInit(info, sms0[name], a), func(y ast.Node) bool {
									if ye, ok := y.(ast.Expr); ok {
										if f := selectorField(info, ye); f != nil {
											runeState[f] = true
										}
									}
									return true
								})
							}
						}
					}
				case *ast.IndexExpr, *ast.SliceExpr:
					var base ast.Expr
					var idx []ast.Expr
					if ie, ok := e.(*ast.IndexExpr); ok {
						base, idx = ie.X, []ast.Expr{ie.Index}
					} else {
						se := e.(*ast.SliceExpr)
						base, idx = se.X, []ast.Expr{se.Low, se.High}
					}
					if t := info.TypeOf(base); t != nil {
						if sl, ok := t.Underlying().(*types.Slice); ok {
							if bt, ok := sl.Elem().Underlying().(*types.Basic); ok && bt.Kind() == types.Int32 {
								for _, ix := range idx {
									if ix == nil {
										continue
									}
									ast.Inspect(ix, func(y ast.Node) bool {
										if ye, ok := y.(ast.Expr); ok {
											if f := selectorField(info, ye); f != nil {
												runeState[f] = true
											}
										}
										return true
									})
								}
							}
						}
					}
				}
				return true
			})
		}
		for _, name := range sortedKeys(sms0) {
			fd := sms0[name]
			ast.Inspect(fd.Body, func(x ast.Node) bool {
				as, ok := x.(*ast.AssignStmt)
				if !ok {
					return true
				}
				toField := false
				for _, l := range as.Lhs {
					if f := selectorField(info, l); f != nil && (runeState[f] || len(runeState) == 0) {
						toField = true
					}
				}
				if !toField {
					return true
				}
				for _, rhs := range as.Rhs {
					ast.Inspect(rhs, func(y ast.Node) bool {
						if call, ok := y.(*ast.CallExpr); ok && isBuiltinCall(info, call, "len") && len(call.Args) == 1 {
							if t := info.Types[call.Args[0]].Type; t != nil && isStringType(t) {
								bad = fmt.Sprintf("%s updates scanner state with len(%s), the BYTE length of a string, at %s: after non-ASCII text on the same line every reported column is too large (the diagnostic must name the column at which the offending text begins)", name, exprStr(call.Args[0]), c.pos(as.Pos()))
							}
						}
						return true
					})
				}
				return true
			})
		}
		r.check(bad == "", "D4-rune-columns", "cdcn."+st.scanner.Obj().Name()+"/positions", c.pos(st.scanner.Obj().Pos()), "cursor, line and column are advanced by rune counts only", bad)
		checkLocationBeforeUpdate(c, r, "D4-token-located-where-it-starts", info, st.scanner)
		checkTokenTextNotEdited(c, r, "D4-token-text-not-edited", info, st.scanner)
		checkReceiverWrites(c, r, "D4-receiver-writes-persist", st.scanner)
		checkReceiverWrites(c, r, "D4-receiver-writes-persist", parser)
	}

	// ---- D5 scanner not abandoned
	checkScannerNotAbandoned(c, r, info, st, pms)

	// ---- D6 loops
	for _, name := range sortedKeys(pms) {
		checkLoops(c, r, "D6-loop-progress", pms[name], nil)
	}
	sms := c.methodsOf(st.scanner)
	exempt := map[string]string{}
	if r.hasOK("D4-scan-loop") {
		exempt[c.fdName(st.scanFD)+"/loop#1"] = "LP-scan: every arm consumes at least one rune or leaves the loop (D4)"
	}
	for _, name := range sortedKeys(sms) {
		checkLoops(c, r, "D6-loop-progress", sms[name], exempt)
	}
	r.floorSoft("D6-loop-progress", "loops", "no loop is left in the methods this rule looks at")
	checkWholeRemainder(c, r, "D4-whole-remainder", st)
	checkCursorOnlyByMatcher(c, r, "D4-cursor-moves", st)
	checkFreshParseState(c, r, "D7-fresh-parse-state", parser)
}

func isInterfaceType(t types.Type) bool {
	_, ok := t.Underlying().(*types.Interface)
	return ok
}

// checkScanLoop: LP-scan form.
func checkScanLoop(c *Ctx, r *Rec, info *types.Info, st *scanTables) {
	construct := c.fdName(st.scanFD) + "/scan-loop"
	loop := st.scanLoop
	// condition:  cursor < len(runes)
	var cursor *types.Var
	if cond, ok := ast.Unparen(loop.Cond).(*ast.BinaryExpr); ok && loop.Cond != nil {
		switch cond.Op {
		case token.LSS:
			cursor = selectorField(info, cond.X)
		case token.GTR:
			cursor = selectorField(info, cond.Y)
		}
	}
	if cursor == nil {
		r.skip("D4-scan-loop", construct, c.pos(loop.Pos()), "the scan loop condition is not `cursor field < len(input)`")
		return
	}
	var viol []string
	// leaves: the statement list leaves the scan loop on every path that reaches its end
	leavesLoop := func(list []ast.Stmt) bool {
		for _, s := range list {
			switch b := s.(type) {
			case *ast.BranchStmt:
				if b.Tok == token.BREAK {
					return true
				}
			case *ast.ReturnStmt:
				return true
			}
		}
		return false
	}
	var sw *ast.SwitchStmt
	if len(loop.Body.List) == 1 {
		sw, _ = loop.Body.List[0].(*ast.SwitchStmt)
	}
	switch {
	case st.foundFD == nil:
		r.skip("D4-scan-loop", construct, c.pos(loop.Pos()), "the per-type matching method could not be bound")
		return
	case sw != nil && sw.Tag == nil:
		// body: a single tagless switch; every non-default clause is a call of the matching method; default leaves the loop
		for _, cl := range sw.Body.List {
			cc := cl.(*ast.CaseClause)
			if cc.List == nil {
				leaves := false
				for _, s := range cc.Body {
					switch b := s.(type) {
					case *ast.BranchStmt:
						if b.Tok == token.BREAK && b.Label != nil {
							leaves = true
						}
					case *ast.ReturnStmt:
						leaves = true
					}
				}
				if !leaves {
					viol = append(viol, "the default arm (no token matches) does not leave the loop: an illegal character is retried forever")
				}
				continue
			}
			for _, e := range cc.List {
				call, ok := ast.Unparen(e).(*ast.CallExpr)
				if !ok || c.declOf(calleeOf(info, call)) != st.foundFD {
					viol = append(viol, "a scan arm is not a call of the matching method: "+exprStr(e))
				}
			}
		}
	case st.orChain != nil:
		// found(A) || found(B) || ...: when the chain is false the loop must be left
		r.skip("D4-scan-loop", construct, c.pos(loop.Pos()), "the matchers are tried in an or-chain: the exit on no match is not checked by this rule")
		return
	case st.tableLoop != nil:
		// data-driven: for _, t := range table { if found(t) { continue scanning } }; then leave the loop
		var after []ast.Stmt
		for i, s := range loop.Body.List {
			if s == ast.Stmt(st.tableLoop) {
				after = loop.Body.List[i+1:]
			}
		}
		if after == nil {
			r.skip("D4-scan-loop", construct, c.pos(loop.Pos()), "the loop over the table of token types is not at the top level of the scan loop")
			return
		}
		if !leavesLoop(after) {
			// a break or return somewhere after the table loop (under a "nothing matched" test) also leaves
			nested := false
			for _, s := range after {
				inspectNoLit(s, func(x ast.Node) bool {
					switch b := x.(type) {
					case *ast.BranchStmt:
						if b.Tok == token.BREAK {
							nested = true
						}
					case *ast.ReturnStmt:
						nested = true
					}
					return true
				})
			}
			if !nested {
				viol = append(viol, "when no token type of the table matches the scan loop is not left: an illegal character is retried forever")
			}
		}
	default:
		r.skip("D4-scan-loop", construct, c.pos(loop.Pos()), "the scan loop body is neither one tagless switch over calls of the matching method nor a loop over a table of token types")
		return
	}
	// the matching method: every `return true` is dominated by  cursor += <length of the match>
	fd := st.foundFD
	g := newFG(info, fd.Body)
	var adv ast.Node
	var advLen ast.Expr
	ast.Inspect(fd.Body, func(x ast.Node) bool {
		if as, ok := x.(*ast.AssignStmt); ok && as.Tok == token.ADD_ASSIGN && len(as.Lhs) == 1 && selectorField(info, as.Lhs[0]) == cursor {
			adv, advLen = as, as.Rhs[0]
		}
		return true
	})
	if adv == nil {
		// the cursor may be moved by a private method that is handed the length
		ast.Inspect(fd.Body, func(x ast.Node) bool {
			call, ok := x.(*ast.CallExpr)
			if !ok || adv != nil {
				return true
			}
			hd := c.declOf(calleeOf(info, call))
			if hd == nil || hd.Body == nil || hd == fd || c.infoFor(hd) != info {
				return true
			}
			hps := paramObjs(info, hd)
			ast.Inspect(hd.Body, func(y ast.Node) bool {
				if as, ok := y.(*ast.AssignStmt); ok && as.Tok == token.ADD_ASSIGN && len(as.Lhs) == 1 && selectorField(info, as.Lhs[0]) == cursor {
					for pi, p := range hps {
						if isObj(info, as.Rhs[0], p) && pi < len(call.Args) {
							adv, advLen = call, call.Args[pi]
						}
					}
				}
				return true
			})
			return true
		})
	}
	if adv == nil {
		r.skip("D4-scan-loop", construct, c.pos(loop.Pos()), "no statement of the matching method itself advances the cursor "+cursor.Name()+" (it may be advanced by a helper, or the scanner keeps its position in another way): not evaluated")
		return
	} else {
		// the increment is the rune length of the match: len([]rune(match)) with match the regex's result
		src := resolveInit(info, fd, advLen)
		if call, ok := src.(*ast.CallExpr); ok && isBuiltinCall(info, call, "len") && len(call.Args) == 1 {
			// the rune length of the match
		} else if tv := info.Types[src]; tv.Value != nil {
			viol = append(viol, "the cursor is advanced by the constant "+exprStr(advLen)+", not by the length of the matched text")
		}
		inspectNoLit(fd.Body, func(x ast.Node) bool {
			if rs, ok := x.(*ast.ReturnStmt); ok && len(rs.Results) == 1 {
				if tv := info.Types[rs.Results[0]]; tv.Value != nil && tv.Value.String() == "true" {
					if !g.nodeDominates(adv, rs) {
						viol = append(viol, fmt.Sprintf("the matching method reports a match at %s without having advanced the cursor on every path: the scan loop retries the same position forever", c.pos(rs.Pos())))
					}
				}
			}
			return true
		})
	}
	// the loop bound is invariant in the scanner's methods other than construction
	r.check(len(viol) == 0, "D4-scan-loop", construct, c.pos(loop.Pos()), "every arm is the matching method (a true result advanced the cursor by the non-empty match) or leaves the loop", strings.Join(dedup(viol), " | "))
}

// checkScannerNotAbandoned: D5.
func checkScannerNotAbandoned(c *Ctx, r *Rec, info *types.Info, st *scanTables, pms map[string]*ast.FuncDecl) {
	// (a) producer closes the queue after the loop, on every path to the function's end
	sfd := st.scanFD
	g := newFG(info, sfd.Body)
	var closeCall ast.Node
	var closeCalls []ast.Node // an early exit may close the queue by itself
	ast.Inspect(sfd.Body, func(x ast.Node) bool {
		if _, mname, call, ok := methodCall(x); ok && mname == "CloseQueue" {
			closeCall = call
			closeCalls = append(closeCalls, call)
		}
		return true
	})
	bad := ""
	if closeCall == nil {
		bad = "the scanner goroutine never closes the token queue: a reader that drains the queue after a diagnostic cannot know when the scanner is done, and without a drain the scanner stays blocked in AddValue on a full queue for ever (one leaked goroutine per failed parse with more than queue-capacity tokens outstanding)"
	} else {
		miss, _ := g.exists(pathQuery{from: point{g.entry(), 0},
			stop: func(n ast.Node) bool {
				for _, cc := range closeCalls {
					if containsNode(n, cc) {
						return true
					}
				}
				return false
			},
			goalExit: func(kind int, _ *cfg.Block) bool { return kind == exitReturn }})
		if miss {
			bad = "a path through the scanner goroutine ends without closing the token queue"
		}
	}
	r.check(bad == "", "D5-scanner-closes-queue", c.fdName(sfd), c.pos(sfd.Pos()), "CloseQueue is passed on every path to the goroutine's end", bad)

	// (b) consumer: ParseSource defers a drain before anything that can panic after the scanner started
	entry := pms["ParseSource"]
	if entry == nil {
		r.undecided("D5-deferred-drain", "cdcn.parser.ParseSource", "", "entry point not found")
		return
	}
	construct := c.fdName(entry)
	var start ast.Node // the call that starts the scanner:  Scanner().Make(...)
	ast.Inspect(entry.Body, func(x ast.Node) bool {
		if call, ok := x.(*ast.CallExpr); ok {
			if rx, mname, _, ok := methodCall(call); ok && mname == "Make" {
				if n := derefNamed(info.Types[rx].Type); n != nil && (n.Origin() == st.cls.Origin() || n.Obj().Name() == "ScannerClassLike") {
					start = call
				}
			}
		}
		return true
	})
	if start == nil {
		// the scanner may be started by a helper of the parser that ParseSource calls
		inspectNoLit(entry.Body, func(x ast.Node) bool {
			call, ok := x.(*ast.CallExpr)
			if !ok || start != nil {
				return true
			}
			cf := calleeOf(info, call)
			if cf == nil || cf.Exported() {
				return true
			}
			if hd := c.declOf(cf); hd != nil && hd.Body != nil {
				ast.Inspect(hd.Body, func(y ast.Node) bool {
					if hc, ok := y.(*ast.CallExpr); ok {
						if rx, mname, _, ok := methodCall(hc); ok && mname == "Make" {
							if n := derefNamed(info.Types[rx].Type); n != nil && (n.Origin() == st.cls.Origin() || n.Obj().Name() == "ScannerClassLike") {
								start = call
							}
						}
					}
					return true
				})
			}
			return true
		})
	}
	if start == nil {
		r.skip("D5-deferred-drain", construct, c.pos(entry.Pos()), "the call that starts the scanner is not in ParseSource or in a helper it calls directly")
		return
	}
	var deferStmt *ast.DeferStmt
	for _, s := range entry.Body.List {
		if d, ok := s.(*ast.DeferStmt); ok {
			deferStmt = d
		}
	}
	bad = ""
	switch {
	case start == nil:
		bad = "ParseSource does not start the scanner through the scanner class"
	case deferStmt == nil:
		bad = "ParseSource registers no deferred action: when it panics with a diagnostic while more tokens than the queue holds are outstanding, the scanner goroutine stays blocked forever"
	default:
		// the deferred function drains: a loop reading RemoveHead until !ok on the parser's queue field
		var drainFD *ast.FuncDecl
		if cf := calleeOf(info, deferStmt.Call); cf != nil {
			drainFD = c.declOf(cf)
		}
		var body *ast.BlockStmt
		if drainFD != nil {
			body = drainFD.Body
		} else if fl, ok := deferStmt.Call.Fun.(*ast.FuncLit); ok {
			body = fl.Body
		}
		drains := false
		var bodies []*ast.BlockStmt
		if body != nil {
			bodies = append(bodies, body)
			inspectNoLit(body, func(x ast.Node) bool {
				if call, ok := x.(*ast.CallExpr); ok {
					if cf := calleeOf(info, call); cf != nil && !cf.Exported() {
						if hd := c.declOf(cf); hd != nil && hd.Body != nil && c.infoFor(hd) == info {
							bodies = append(bodies, hd.Body)
						}
					}
				}
				return true
			})
		}
		for _, body := range bodies {
			for _, l := range loopsIn(body) {
				reads := false
				inspectNoLit(l, func(x ast.Node) bool {
					if _, mname, _, ok := methodCall(x); ok && mname == "RemoveHead" {
						reads = true
					}
					return true
				})
				if reads {
					lc := newLoopCtx(c, info, entry, body)
					v := lc.classify(l)
					if v.OK {
						drains = true
					}
				}
			}
		}
		if !drains {
			bad = "the deferred action does not drain the token queue (a loop of RemoveHead until the queue reports closed)"
		} else {
			// ordering: nothing that can panic lies between the scanner's start and the defer
			eg := newFG(info, entry.Body)
			if !eg.nodeDominates(start, deferStmt) {
				// defer registered before the start is fine too
				if !eg.nodeDominates(deferStmt, start) {
					bad = "the drain is not registered on every path"
				}
			} else {
				pt, _ := eg.after(start)
				between, w := eg.exists(pathQuery{from: pt,
					stop: func(n ast.Node) bool { return n == ast.Node(deferStmt) },
					goalNode: func(n ast.Node) bool {
						if ds, isDefer := n.(*ast.DeferStmt); isDefer {
							// registering a deferred function runs nothing but the evaluation of its arguments
							for _, a := range ds.Call.Args {
								if mayPanicCall(info, a) != nil {
									return true
								}
							}
							return false
						}
						return n != ast.Node(deferStmt) && mayPanicCall(info, n) != nil && !containsNode(n, start)
					}})
				if between {
					bad = fmt.Sprintf("a call at %s can panic after the scanner was started and before the drain is registered", c.pos(w.Pos()))
				}
			}
		}
	}
	r.check(bad == "", "D5-deferred-drain", construct, c.pos(entry.Pos()), "a drain of the token queue is deferred right after the scanner starts", bad)
}

// ---------------------------------------------------------------- extra scanner/parser rules

// checkWholeRemainder: the text handed to the token matcher is the whole rest of the input
// (runes[cursor:]); a window with an upper bound other than the length of the input cuts long
// tokens (strings, fractions) in two.
func checkWholeRemainder(c *Ctx, r *Rec, rule string, st *scanTables) {
	if st.foundFD == nil {
		return
	}
	info := c.info("cdcn")
	fd := st.foundFD
	construct := c.fdName(fd) + "/matcher-input"
	var se *ast.SliceExpr
	n := 0
	inspectNoLit(fd.Body, func(x ast.Node) bool {
		if s, ok := x.(*ast.SliceExpr); ok {
			if f := selectorField(info, s.X); f != nil {
				if _, isSlice := f.Type().Underlying().(*types.Slice); isSlice && s.Low != nil && selectorField(info, s.Low) != nil {
					se = s
					n++
				}
			}
		}
		return true
	})
	if n != 1 {
		r.skip(rule, construct, c.pos(fd.Pos()), "the matching method does not slice the input at the cursor exactly once")
		return
	}
	bad := ""
	if se.High != nil {
		hi := resolveInit(info, fd, se.High)
		isLen := false
		if call, ok := hi.(*ast.CallExpr); ok && isBuiltinCall(info, call, "len") && len(call.Args) == 1 && selectorField(info, call.Args[0]) == selectorField(info, se.X) {
			isLen = true
		}
		if !isLen {
			bad = fmt.Sprintf("the matcher is given the window %s[%s:%s] instead of the whole rest of the input: a token longer than the window (a long string, a long fraction) is cut in two or not recognised at all", exprStr(se.X), exprStr(se.Low), exprStr(se.High))
		}
	}
	r.check(bad == "", rule, construct, c.pos(se.Pos()), "the matcher sees the whole rest of the input from the cursor", bad)
}

// checkCursorOnlyByMatcher: inside the scan loop the cursor is moved only by the matching
// method and the error handler, which are followed by a new test of the loop bound; any other
// statement of the loop body that moves it lets the matchers run on an exhausted input.
func checkCursorOnlyByMatcher(c *Ctx, r *Rec, rule string, st *scanTables) {
	if st.scanLoop == nil || st.scanFD == nil {
		return
	}
	info := c.info("cdcn")
	var cursor *types.Var
	if cond, ok := ast.Unparen(st.scanLoop.Cond).(*ast.BinaryExpr); ok && st.scanLoop.Cond != nil {
		switch cond.Op {
		case token.LSS:
			cursor = selectorField(info, cond.X)
		case token.GTR:
			cursor = selectorField(info, cond.Y)
		}
	}
	construct := c.fdName(st.scanFD) + "/cursor-moves"
	if cursor == nil {
		r.skip(rule, construct, c.pos(st.scanLoop.Pos()), "the scan loop does not test a cursor field")
		return
	}
	if st.foundFD == nil {
		r.skip(rule, construct, c.pos(st.scanLoop.Pos()), "the per-type matching method could not be bound")
		return
	}
	// the statement of the loop body in which the matchers are tried (directly or in a helper)
	triesIn := func(n ast.Node) bool {
		tries := false
		inspectNoLit(n, func(x ast.Node) bool {
			if call, ok := x.(*ast.CallExpr); ok {
				d := c.declOf(calleeOf(info, call))
				if d == st.foundFD {
					tries = true
				} else if d != nil && st.orChain != nil && d.Body != nil && containsNode(d.Body, st.orChain) {
					tries = true
				}
			}
			return true
		})
		return tries
	}
	anyTries := false
	for _, s := range st.scanLoop.Body.List {
		if triesIn(s) {
			anyTries = true
		}
	}
	if !anyTries {
		r.skip(rule, construct, c.pos(st.scanLoop.Pos()), "the scan loop does not try the matchers in a top-level statement of its body")
		return
	}
	fw := c.fieldWrites()
	movers := map[*ast.FuncDecl]bool{}
	for _, w := range fw[cursor.Origin()] {
		movers[w.In] = true
	}
	bad := ""
	// top-level statements of the loop body that precede the first attempt to match
	for _, s := range st.scanLoop.Body.List {
		if triesIn(s) {
			break
		}
		inspectNoLit(s, func(x ast.Node) bool {
			switch y := x.(type) {
			case *ast.CallExpr:
				if d := c.declOf(calleeOf(info, y)); d != nil && movers[d] && d != st.foundFD {
					bad = fmt.Sprintf("%s, called at %s before the matchers are tried, moves the cursor %s; the loop bound is not tested again, so at the end of the input the matchers run on nothing and the error path steps past the end", d.Name.Name, c.pos(y.Pos()), cursor.Name())
				}
			case *ast.AssignStmt:
				for _, l := range y.Lhs {
					if selectorField(info, l) == cursor {
						bad = fmt.Sprintf("the cursor %s is assigned at %s before the matchers are tried and the loop bound is not tested again", cursor.Name(), c.pos(y.Pos()))
					}
				}
			case *ast.IncDecStmt:
				if selectorField(info, y.X) == cursor {
					bad = fmt.Sprintf("the cursor %s is stepped at %s before the matchers are tried and the loop bound is not tested again", cursor.Name(), c.pos(y.Pos()))
				}
			}
			return true
		})
	}
	r.check(bad == "", rule, construct, c.pos(st.scanLoop.Pos()), "between the test of the bound and the matchers nothing moves the cursor", bad)
}

// checkFreshParseState: every field of the parser that carries state during a parse (a
// container, or a field written by the parser's methods) is re-created by ParseSource
// before the traversal starts; otherwise what a failed parse left behind is read by the next.
func checkFreshParseState(c *Ctx, r *Rec, rule string, parser *types.Named) {
	info := c.info("cdcn")
	pms := c.methodsOf(parser)
	entry := pms["ParseSource"]
	stt := structOf(parser)
	if entry == nil || stt == nil {
		return
	}
	fw := c.fieldWrites()
	g := newFG(info, entry.Body)
	isParserMethod := func(call *ast.CallExpr) *ast.FuncDecl {
		if cf := calleeOf(info, call); cf != nil && recvNamed(cf) != nil && recvNamed(cf).Origin() == parser.Origin() {
			return c.declOf(cf)
		}
		return nil
	}
	// an initialising helper: an unexported method that assigns fields of the parser in its own
	// top-level statements before it calls any other method of the parser
	initialises := func(hd *ast.FuncDecl) map[*types.Var]bool {
		out := map[*types.Var]bool{}
		if hd == nil || hd.Body == nil || hd.Name.IsExported() {
			return out
		}
		for _, st := range hd.Body.List {
			stop := false
			inspectNoLit(st, func(x ast.Node) bool {
				if call, ok := x.(*ast.CallExpr); ok && isParserMethod(call) != nil {
					stop = true
				}
				return true
			})
			if stop {
				break
			}
			if as, ok := st.(*ast.AssignStmt); ok {
				for _, l := range as.Lhs {
					if f := selectorField(info, l); f != nil {
						out[f] = true
					}
				}
			}
		}
		return out
	}
	var firstCall ast.Node
	initCalls := map[*ast.CallExpr]map[*types.Var]bool{}
	inspectNoLit(entry.Body, func(x ast.Node) bool {
		if call, ok := x.(*ast.CallExpr); ok && firstCall == nil {
			if hd := isParserMethod(call); hd != nil {
				if _, isDefer := pathParentDefer(entry.Body, call); !isDefer {
					if fs := initialises(hd); len(fs) > 0 {
						initCalls[call] = fs
					} else {
						firstCall = call
					}
				}
			}
		}
		return true
	})
	for i := 0; i < stt.NumFields(); i++ {
		f := stt.Field(i)
		stateful := isCollectionLike(f.Type())
		for _, w := range fw[f.Origin()] {
			if w.In != entry {
				stateful = true
			}
		}
		if !stateful {
			continue
		}
		construct := "cdcn." + parser.Obj().Name() + "." + f.Name()
		var assigns []ast.Node
		inspectNoLit(entry.Body, func(x ast.Node) bool {
			if as, ok := x.(*ast.AssignStmt); ok {
				for _, l := range as.Lhs {
					if selectorField(info, l) == f {
						assigns = append(assigns, as)
					}
				}
			}
			if call, ok := x.(*ast.CallExpr); ok && initCalls[call][f] {
				assigns = append(assigns, call)
			}
			return true
		})
		bad := ""
		switch {
		case len(assigns) == 0:
			bad = fmt.Sprintf("ParseSource does not re-create the field %s: what a previous parse (in particular one that ended in a syntax panic) left in it is used by the next parse on the same parser", f.Name())
		case firstCall != nil:
			dom := false
			for _, a := range assigns {
				if g.nodeDominates(a, firstCall) {
					dom = true
				}
			}
			if !dom {
				bad = fmt.Sprintf("the field %s is not re-created before the traversal starts", f.Name())
			}
		}
		r.check(bad == "", rule, construct, c.pos(f.Pos()), "re-created by ParseSource before the traversal", bad)
	}
}

// pathParentDefer: is n inside a defer statement of body?
func pathParentDefer(body ast.Node, n ast.Node) (ast.Node, bool) {
	for _, p := range pathTo(body, n) {
		if d, ok := p.(*ast.DeferStmt); ok {
			return d, true
		}
	}
	return nil, false
}

// checkDiagnosticBuilders: the functions that put a syntax diagnostic together (the methods
// named FormatToken, the functions that call one, and the unexported functions those call) see
// arbitrary tokens: a slice or index expression with a constant bound on a slice or string whose
// length no enclosing condition establishes replaces the diagnostic by a Go runtime error.
func checkDiagnosticBuilders(c *Ctx, r *Rec, rule string) {
	info := c.info("cdcn")
	set := map[*ast.FuncDecl]bool{}
	all := c.allFuncDecls("cdcn")
	for _, fd := range all {
		if fd.Body == nil {
			continue
		}
		if fd.Name.Name == "FormatToken" && fd.Recv != nil {
			set[fd] = true
			continue
		}
		inspectNoLit(fd.Body, func(x ast.Node) bool {
			if _, mname, _, ok := methodCall(x); ok && mname == "FormatToken" {
				set[fd] = true
			}
			return true
		})
	}
	for depth := 0; depth < 2; depth++ {
		for fd := range set {
			inspectNoLit(fd.Body, func(x ast.Node) bool {
				if call, ok := x.(*ast.CallExpr); ok {
					if cf := calleeOf(info, call); cf != nil && !cf.Exported() {
						if hd := c.declOf(cf); hd != nil && hd.Body != nil && c.infoFor(hd) == info {
							set[hd] = true
						}
					}
				}
				return true
			})
		}
	}
	var fds []*ast.FuncDecl
	for fd := range set {
		fds = append(fds, fd)
	}
	sort.Slice(fds, func(i, j int) bool { return fds[i].Pos() < fds[j].Pos() })
	for _, fd := range fds {
		g := newFG(info, fd.Body)
		var viol []string
		n := 0
		constOf := func(e ast.Expr) (int64, bool) {
			if e == nil {
				return 0, false
			}
			if tv, ok := info.Types[e]; ok && tv.Value != nil {
				return constantInt(tv)
			}
			return 0, false
		}
		check := func(node ast.Node, operand ast.Expr, k int64, what string) {
			t := info.TypeOf(operand)
			if t == nil {
				return
			}
			switch u := t.Underlying().(type) {
			case *types.Slice:
			case *types.Basic:
				if u.Info()&types.IsString == 0 {
					return
				}
			default:
				return
			}
			o := identObj(info, operand)
			if o == nil {
				return
			}
			n++
			pt, ok := g.locate(node)
			if !ok {
				return
			}
			guarded := false
			for _, ec := range g.edgeConds(pt) {
				ast.Inspect(ec.cond, func(y ast.Node) bool {
					if call, ok := y.(*ast.CallExpr); ok && isBuiltinCall(info, call, "len") && len(call.Args) == 1 && isObj(info, call.Args[0], o) {
						guarded = true
					}
					return true
				})
			}
			// a literal defined in place has the length one can read off
			if init := initOf(info, fd, operand.(*ast.Ident)); init != nil {
				if _, isLit := ast.Unparen(init).(*ast.CompositeLit); isLit {
					guarded = true
				}
				if tv, ok := info.Types[init]; ok && tv.Value != nil {
					guarded = true
				}
			}
			if !guarded {
				viol = append(viol, fmt.Sprintf("%s at %s takes %s of %s, whose length no enclosing condition on len(%s) establishes: for a shorter one the diagnostic is replaced by a Go runtime error (or padded from spare capacity)", what, c.pos(node.Pos()), fmt.Sprint(k), o.Name(), o.Name()))
			}
		}
		inspectNoLit(fd.Body, func(x ast.Node) bool {
			switch e := x.(type) {
			case *ast.SliceExpr:
				if _, isId := ast.Unparen(e.X).(*ast.Ident); !isId {
					return true
				}
				if k, ok := constOf(e.High); ok && k > 0 {
					check(e, ast.Unparen(e.X), k, "the slice expression "+exprStr(e))
				} else if k, ok := constOf(e.Low); ok && k > 0 {
					check(e, ast.Unparen(e.X), k, "the slice expression "+exprStr(e))
				}
			case *ast.IndexExpr:
				if _, isId := ast.Unparen(e.X).(*ast.Ident); !isId {
					return true
				}
				if k, ok := constOf(e.Index); ok && k >= 0 {
					check(e, ast.Unparen(e.X), k, "the index expression "+exprStr(e))
				}
			}
			return true
		})
		construct := c.fdName(fd)
		switch {
		case len(viol) > 0:
			r.fail(rule, construct, c.pos(fd.Pos()), strings.Join(dedup(viol), " | "))
		default:
			r.ok(rule, construct, c.pos(fd.Pos()), fmt.Sprintf("%d constant-bound slice or index expressions, each under a condition on the operand's length", n))
		}
	}
	if len(fds) == 0 {
		r.skip(rule, "cdcn/diagnostic-builders", "", "no method named FormatToken and no caller of one")
	}
}

// checkReentrantMethodsKeepLocals: the methods of the recursive descent call one another in
// cycles (a value contains a collection contains values ...).  A parser field that such a method
// assigns is shared by all its activations: the inner activation overwrites what the outer one
// is still working with.  Fields used with stack discipline through method calls (the push-back
// stack, the token queue) are not assignments and are not meant here.
func checkReentrantMethodsKeepLocals(c *Ctx, r *Rec, rule string, parser *types.Named) {
	cg := c.sameTypeCallGraph(parser)
	// methods on a cycle of the call graph
	onCycle := map[string]bool{}
	for name := range cg {
		seen := map[string]bool{}
		work := []string{}
		for callee := range cg[name] {
			work = append(work, callee)
		}
		for len(work) > 0 {
			cur := work[len(work)-1]
			work = work[:len(work)-1]
			if cur == name {
				onCycle[name] = true
				break
			}
			if seen[cur] {
				continue
			}
			seen[cur] = true
			for callee := range cg[cur] {
				work = append(work, callee)
			}
		}
	}
	st := structOf(parser)
	if st == nil || len(onCycle) == 0 {
		r.skip(rule, "cdcn."+parser.Obj().Name()+"/re-entrant-methods", "", "the parser has no methods that call one another in a cycle")
		return
	}
	fw := c.fieldWrites()
	n := 0
	for i := 0; i < st.NumFields(); i++ {
		f := st.Field(i)
		construct := "cdcn." + parser.Obj().Name() + "." + f.Name()
		bad := ""
		for _, w := range fw[f.Origin()] {
			if w.In != nil && w.In.Recv != nil && onCycle[w.In.Name.Name] && (w.How == "assigned" || strings.HasPrefix(w.How, "assigned")) {
				bad = fmt.Sprintf("the field is %s in %s at %s, a method that can be entered again before it returns (a nested collection): the inner activation overwrites what the outer one is still using", w.How, w.In.Name.Name, c.pos(w.Pos))
			}
		}
		if bad != "" {
			n++
			r.fail(rule, construct, c.pos(f.Pos()), bad)
		}
	}
	if n == 0 {
		var names []string
		for m := range onCycle {
			names = append(names, m)
		}
		sort.Strings(names)
		r.ok(rule, "cdcn."+parser.Obj().Name()+"/re-entrant-methods", c.pos(parser.Obj().Pos()), fmt.Sprintf("%d methods lie on call cycles; none of them assigns a field of the parser", len(names)))
	}
}

// checkLocationBeforeUpdate: a token carries the line and column at which it starts.  The method
// that makes the token reads them from scanner fields; a method that calls it must not have
// moved those fields on for the text of this very token before the call (the line counter
// stepped for an end-of-line before the end-of-line token is emitted labels it with the next line).
func checkLocationBeforeUpdate(c *Ctx, r *Rec, rule string, info *types.Info, scanner *types.Named) {
	ms := c.methodsOf(scanner)
	// the emitter: the method that calls Token().Make(line, position, ...)
	var emit *ast.FuncDecl
	locF := map[*types.Var]bool{}
	for _, name := range sortedKeys(ms) {
		fd := ms[name]
		ast.Inspect(fd.Body, func(x ast.Node) bool {
			rx, mname, call, ok := methodCall(x)
			if !ok || mname != "Make" || len(call.Args) < 3 {
				return true
			}
			if n := derefNamed(info.TypeOf(rx)); n == nil || !strings.HasPrefix(n.Obj().Name(), "Token") {
				return true
			}
			emit = fd
			for _, a := range call.Args[:2] {
				ast.Inspect(resolveInit(info, fd, a), func(y ast.Node) bool {
					if e, ok := y.(ast.Expr); ok {
						if f := selectorField(info, e); f != nil {
							locF[f] = true
						}
					}
					return true
				})
			}
			return true
		})
	}
	construct := "cdcn." + scanner.Obj().Name() + "/token-location"
	if emit == nil || len(locF) == 0 {
		r.skip(rule, construct, "", "no scanner method makes a token from location fields of the scanner")
		return
	}
	emitFn := c.funcOf(emit)
	bad := ""
	n := 0
	for _, name := range sortedKeys(ms) {
		fd := ms[name]
		if fd == emit {
			continue
		}
		var emits []*ast.CallExpr
		inspectNoLit(fd.Body, func(x ast.Node) bool {
			if call, ok := x.(*ast.CallExpr); ok {
				if cf := calleeOf(info, call); cf != nil && emitFn != nil && cf.Origin() == emitFn.Origin() {
					emits = append(emits, call)
				}
			}
			return true
		})
		if len(emits) == 0 {
			continue
		}
		g := newFG(info, fd.Body)
		inspectNoLit(fd.Body, func(x ast.Node) bool {
			var lhs []ast.Expr
			switch st := x.(type) {
			case *ast.AssignStmt:
				lhs = st.Lhs
			case *ast.IncDecStmt:
				lhs = []ast.Expr{st.X}
			default:
				return true
			}
			for _, l := range lhs {
				f := selectorField(info, l)
				if f == nil || !locF[f] {
					continue
				}
				n++
				pt, ok := g.after(x)
				if !ok {
					continue
				}
				for _, em := range emits {
					em := em
					if reach, _ := g.exists(pathQuery{from: pt, goalNode: func(nd ast.Node) bool { return containsNode(nd, em) }}); reach && bad == "" {
						bad = fmt.Sprintf("%s updates the location field %s at %s and emits a token afterwards at %s: the token is labelled with the location behind its text, not the one at which it starts", name, f.Name(), c.pos(x.Pos()), c.pos(em.Pos()))
					}
				}
			}
			return true
		})
	}
	r.check(bad == "", rule, construct, c.pos(emit.Pos()), fmt.Sprintf("%d updates of the location fields, none of them on a path to the emission of a token in the same method", n), bad)
}

// checkTokenTextNotEdited: the value of a token is the text that was matched (the parser unquotes
// and converts exactly that text).  Giving a whole value another name (an end-of-line token is
// shown as "<EOL>") is a comparison of the whole value; a function that edits *inside* the text
// (strings.Replace/ReplaceAll/Map, a strings.Replacer, case mapping, trimming) also changes the
// raw characters inside rune and string literals.
func checkTokenTextNotEdited(c *Ctx, r *Rec, rule string, info *types.Info, scanner *types.Named) {
	ms := c.methodsOf(scanner)
	editors := map[string]bool{"Replace": true, "ReplaceAll": true, "Map": true, "ToUpper": true, "ToLower": true, "ToTitle": true,
		"Trim": true, "TrimSpace": true, "TrimLeft": true, "TrimRight": true, "TrimFunc": true, "ToValidUTF8": true}
	var isEditor func(fd *ast.FuncDecl, e ast.Expr, depth int) string
	isEditor = func(fd *ast.FuncDecl, e ast.Expr, depth int) string {
		call, ok := ast.Unparen(e).(*ast.CallExpr)
		if !ok || depth > 2 {
			return ""
		}
		finfo := c.infoFor(fd)
		if finfo == nil {
			return ""
		}
		fn := calleeOf(finfo, call)
		if fn == nil {
			return ""
		}
		if fn.Pkg() != nil && fn.Pkg().Path() == "strings" && editors[fn.Name()] {
			return "strings." + fn.Name()
		}
		if rn := recvNamed(fn); rn != nil && rn.Obj().Pkg() != nil && rn.Obj().Pkg().Path() == "strings" && rn.Obj().Name() == "Replacer" {
			return "strings.Replacer." + fn.Name()
		}
		if d := c.declOf(fn); d != nil && d.Body != nil && c.infoFor(d) != nil {
			w := ""
			inspectNoLit(d.Body, func(x ast.Node) bool {
				if rs, ok := x.(*ast.ReturnStmt); ok && len(rs.Results) == 1 && w == "" {
					w = isEditor(d, rs.Results[0], depth+1)
				}
				return true
			})
			return w
		}
		return ""
	}
	n := 0
	for _, name := range sortedKeys(ms) {
		fd := ms[name]
		if fd.Body == nil {
			continue
		}
		ast.Inspect(fd.Body, func(x ast.Node) bool {
			rx, mname, call, ok := methodCall(x)
			if !ok || mname != "Make" || len(call.Args) < 3 {
				return true
			}
			if tn := derefNamed(info.TypeOf(rx)); tn == nil || !strings.HasPrefix(tn.Obj().Name(), "Token") {
				return true
			}
			for _, a := range call.Args {
				bt, ok := info.TypeOf(a).Underlying().(*types.Basic)
				if !ok || bt.Kind() != types.String {
					continue
				}
				n++
				bad := isEditor(fd, a, 0)
				if id, ok := ast.Unparen(a).(*ast.Ident); ok && bad == "" {
					obj := info.Uses[id]
					ast.Inspect(fd.Body, func(y ast.Node) bool {
						lhs, rhs, ok := multiDef(y)
						if as, isAs := y.(*ast.AssignStmt); isAs && len(as.Lhs) == 1 && len(as.Rhs) == 1 {
							lhs, rhs, ok = as.Lhs, as.Rhs[0], true
						}
						if ok && len(lhs) == 1 && identObj(info, lhs[0]) == obj && bad == "" {
							bad = isEditor(fd, rhs, 0)
						}
						return true
					})
				}
				construct := c.fdName(fd) + "/token-value"
				if bad != "" {
					r.fail(rule, construct, c.pos(call.Pos()), fmt.Sprintf("the value of the token made here has passed through %s, which edits inside the text: raw characters inside a rune or string literal are changed before the parser sees the literal, so the literal no longer stands for the value that was written", bad))
				} else {
					r.ok(rule, construct, c.pos(call.Pos()), "the token's value is the matched text (or a name for the whole value), not an edited copy")
				}
			}
			return true
		})
	}
	if n == 0 {
		r.skip(rule, "cdcn."+scanner.Obj().Name()+"/token-value", "", "no scanner method makes a token with a text value")
	}
}
