package main

// make with a length, then append.  `values := make([]V, n)` already holds n zero values; a loop
// that then appends the real ones ends with 2n values, the first n of them zero.  The rule asks
// for the exact shape: a local slice made with a length that is not the constant zero, which is
// the first argument and the target of an append, and which is never stored into by index and
// never the destination of copy (the two ways the made positions are meant to be filled).

import (
	"fmt"
	"go/ast"
	"go/types"
)

func checkMakeLenThenAppend(c *Ctx, r *Rec, rule string, fds []*ast.FuncDecl) {
	sites, bad := 0, 0
	for _, fd := range fds {
		info := c.infoFor(fd)
		if info == nil || fd.Body == nil {
			continue
		}
		made := map[types.Object]*ast.CallExpr{}
		ast.Inspect(fd.Body, func(x ast.Node) bool {
			lhs, rhs, ok := multiDef(x)
			if !ok || len(lhs) != 1 {
				return true
			}
			call, ok := ast.Unparen(rhs).(*ast.CallExpr)
			if !ok || !isBuiltinCall(info, call, "make") || len(call.Args) < 2 {
				return true
			}
			if _, isSlice := info.TypeOf(call).Underlying().(*types.Slice); !isSlice {
				return true
			}
			if k, isC := constIntExpr(info, call.Args[1]); isC && k == 0 {
				return true
			}
			if o := identObj(info, lhs[0]); o != nil {
				made[o] = call
			}
			return true
		})
		for o, mk := range made {
			appended, filled := false, false
			var at ast.Node
			ast.Inspect(fd.Body, func(x ast.Node) bool {
				switch s := x.(type) {
				case *ast.AssignStmt:
					for i, l := range s.Lhs {
						if ix, ok := ast.Unparen(l).(*ast.IndexExpr); ok && isObj(info, ix.X, o) {
							filled = true
						}
						if isObj(info, l, o) && i < len(s.Rhs) {
							if call, ok := ast.Unparen(s.Rhs[i]).(*ast.CallExpr); ok && isBuiltinCall(info, call, "append") && len(call.Args) >= 2 && isObj(info, call.Args[0], o) {
								appended = true
								at = call
							} else if call != mk {
								if _, isMake := ast.Unparen(s.Rhs[i]).(*ast.CallExpr); !isMake || ast.Unparen(s.Rhs[i]) != ast.Expr(mk) {
									filled = true // reassigned to something else: another design
								}
							}
						}
					}
				case *ast.CallExpr:
					if isBuiltinCall(info, s, "copy") && len(s.Args) == 2 {
						dst := ast.Unparen(s.Args[0])
						if se, ok := dst.(*ast.SliceExpr); ok {
							dst = ast.Unparen(se.X)
						}
						if isObj(info, dst, o) {
							filled = true
						}
					}
					// handed to a function that may fill it
					if !isBuiltinCall(info, s, "append") && !isBuiltinCall(info, s, "len") && !isBuiltinCall(info, s, "cap") {
						for _, a := range s.Args {
							if isObj(info, a, o) {
								if cf := calleeOf(info, s); cf == nil || c.roleOf(cf.Pkg()) == "" {
									filled = true
								}
							}
						}
					}
				case *ast.RangeStmt:
					// for i := range x { x[i] = ... } is an index store (seen above)
				}
				return true
			})
			if !appended {
				continue
			}
			sites++
			if !filled {
				bad++
				r.fail(rule, c.fdName(fd)+"/"+o.Name(), c.pos(at.Pos()), fmt.Sprintf("%s is made with a length (%s) and then only appended to: the made positions keep their zero values and the appended values come behind them, so the result holds twice as many values as intended, the first half zero", o.Name(), exprStr(mk)))
			}
		}
	}
	if bad == 0 {
		r.ok(rule, "make-then-append", "", fmt.Sprintf("%d slices that are made with a length and appended to are also filled by index or copy", sites))
	}
}
