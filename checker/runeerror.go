package main

// utf8.RuneError is also a character.  DecodeRune/DecodeRuneInString/DecodeLastRune... answer
// (RuneError, 1) for a malformed encoding and (RuneError, 3) for the well-formed U+FFFD; a test
// of the rune alone, with the width thrown away, treats the valid character U+FFFD as an error.

import (
	"fmt"
	"go/ast"
	"go/token"
	"go/types"
	"strings"
)

func checkRuneErrorWithWidth(c *Ctx, r *Rec, rule, role string) {
	sites, bad := 0, 0
	for _, fd := range c.allFuncDecls(role) {
		info := c.infoFor(fd)
		if info == nil {
			continue
		}
		// runes that come out of a utf8.Decode* call whose width is discarded
		widthless := map[types.Object]ast.Node{}
		ast.Inspect(fd.Body, func(x ast.Node) bool {
			var lhs []ast.Expr
			var call *ast.CallExpr
			switch s := x.(type) {
			case *ast.AssignStmt:
				if len(s.Lhs) == 2 && len(s.Rhs) == 1 {
					lhs = s.Lhs
					call, _ = ast.Unparen(s.Rhs[0]).(*ast.CallExpr)
				}
			case *ast.ValueSpec:
				if len(s.Names) == 2 && len(s.Values) == 1 {
					lhs = []ast.Expr{s.Names[0], s.Names[1]}
					call, _ = ast.Unparen(s.Values[0]).(*ast.CallExpr)
				}
			}
			// `for _, r := range text`: an invalid byte and the character U+FFFD itself both come
			// out as utf8.RuneError, and the loop has no width to tell them apart
			if rs, ok := x.(*ast.RangeStmt); ok && rs.Value != nil {
				if t := info.TypeOf(rs.X); t != nil && isStringType(t) {
					if o := identObj(info, rs.Value); o != nil {
						widthless[o] = rs
					}
				}
			}
			if call == nil {
				return true
			}
			fn := calleeOf(info, call)
			if fn == nil || fn.Pkg() == nil || fn.Pkg().Path() != "unicode/utf8" || !strings.HasPrefix(fn.Name(), "Decode") {
				return true
			}
			if w, ok := lhs[1].(*ast.Ident); ok && w.Name == "_" {
				if o := identObj(info, lhs[0]); o != nil {
					widthless[o] = call
				} else if id, ok := lhs[0].(*ast.Ident); ok && info.Defs[id] != nil {
					widthless[info.Defs[id]] = call
				}
			}
			return true
		})
		ast.Inspect(fd.Body, func(x ast.Node) bool {
			be, ok := x.(*ast.BinaryExpr)
			if !ok || (be.Op != token.EQL && be.Op != token.NEQ) {
				return true
			}
			isRuneError := func(e ast.Expr) bool {
				se, ok := ast.Unparen(e).(*ast.SelectorExpr)
				if !ok || se.Sel.Name != "RuneError" {
					return false
				}
				o := info.Uses[se.Sel]
				return o != nil && o.Pkg() != nil && o.Pkg().Path() == "unicode/utf8"
			}
			var other ast.Expr
			switch {
			case isRuneError(be.X):
				other = be.Y
			case isRuneError(be.Y):
				other = be.X
			default:
				return true
			}
			sites++
			if o := identObj(info, other); o != nil {
				if call, ok := widthless[o]; ok {
					bad++
					from := "the range loop"
					if ce, isCall := call.(*ast.CallExpr); isCall {
						from = exprStr(ce.Fun)
					}
					r.fail(rule, c.fdName(fd)+"/"+exprStr(be), c.pos(be.Pos()), fmt.Sprintf("%s is compared with utf8.RuneError although the width that %s had for it is not looked at: RuneError is also the valid character U+FFFD (width 3); only (RuneError, 1) is a malformed encoding, so a text that holds U+FFFD is taken for an error", o.Name(), from))
				}
			}
			return true
		})
	}
	if bad == 0 {
		r.ok(rule, role+"/rune-error-tests", "", fmt.Sprintf("%d comparisons with utf8.RuneError, none on a rune whose decoded width was discarded", sites))
	}
}
