package main

// PATH engine: helpers over go/cfg control-flow graphs.

import (
	"go/ast"
	"go/token"
	"go/types"

	"golang.org/x/tools/go/cfg"
)

// A point is the program point just before Nodes[idx] of a block
// (idx == len(Nodes) is the end of the block).
type point struct {
	b   *cfg.Block
	idx int
}

type FG struct {
	info   *types.Info
	G      *cfg.CFG
	body   *ast.BlockStmt
	idom   map[*cfg.Block]*cfg.Block
	preds  map[*cfg.Block][]*cfg.Block
	order  []*cfg.Block // reverse postorder of live blocks
	number map[*cfg.Block]int
}

// noReturn reports whether a call never returns (panic and friends).
func noReturnCall(info *types.Info, call *ast.CallExpr) bool {
	if isBuiltinCall(info, call, "panic") {
		return true
	}
	if fn := calleeOf(info, call); fn != nil && fn.Pkg() != nil {
		switch fn.Pkg().Path() + "." + fn.Name() {
		case "os.Exit", "log.Fatal", "log.Fatalf", "log.Fatalln", "log.Panic", "log.Panicf", "runtime.Goexit":
			return true
		}
	}
	return false
}

func newFG(info *types.Info, body *ast.BlockStmt) *FG {
	g := &FG{info: info, body: body}
	g.G = cfg.New(body, func(call *ast.CallExpr) bool { return !noReturnCall(info, call) })
	g.preds = map[*cfg.Block][]*cfg.Block{}
	// reverse postorder from entry
	seen := map[*cfg.Block]bool{}
	var post []*cfg.Block
	var dfs func(b *cfg.Block)
	dfs = func(b *cfg.Block) {
		seen[b] = true
		for _, s := range b.Succs {
			if !seen[s] {
				dfs(s)
			}
		}
		post = append(post, b)
	}
	if len(g.G.Blocks) > 0 {
		dfs(g.G.Blocks[0])
	}
	for i := len(post) - 1; i >= 0; i-- {
		g.order = append(g.order, post[i])
	}
	g.number = map[*cfg.Block]int{}
	for i, b := range g.order {
		g.number[b] = i
	}
	for _, b := range g.order {
		for _, s := range b.Succs {
			g.preds[s] = append(g.preds[s], b)
		}
	}
	// Cooper-Harvey-Kennedy dominators
	g.idom = map[*cfg.Block]*cfg.Block{}
	if len(g.order) > 0 {
		entry := g.order[0]
		g.idom[entry] = entry
		changed := true
		for changed {
			changed = false
			for _, b := range g.order[1:] {
				var nd *cfg.Block
				for _, p := range g.preds[b] {
					if g.idom[p] == nil {
						continue
					}
					if nd == nil {
						nd = p
					} else {
						nd = g.intersect(p, nd)
					}
				}
				if nd != nil && g.idom[b] != nd {
					g.idom[b] = nd
					changed = true
				}
			}
		}
	}
	return g
}

func (g *FG) intersect(a, b *cfg.Block) *cfg.Block {
	for a != b {
		for g.number[a] > g.number[b] {
			a = g.idom[a]
		}
		for g.number[b] > g.number[a] {
			b = g.idom[b]
		}
	}
	return a
}

func (g *FG) entry() *cfg.Block { return g.order[0] }

func (g *FG) live(b *cfg.Block) bool { _, ok := g.number[b]; return ok }

// blockDominates: a dominates b (reflexive).
func (g *FG) blockDominates(a, b *cfg.Block) bool {
	if !g.live(a) || !g.live(b) {
		return false
	}
	for {
		if a == b {
			return true
		}
		if b == g.entry() {
			return false
		}
		nb := g.idom[b]
		if nb == nil || nb == b {
			return false
		}
		b = nb
	}
}

// locate finds the CFG node (statement or condition) that contains n.
func (g *FG) locate(n ast.Node) (point, bool) {
	for _, b := range g.order {
		for i, nd := range b.Nodes {
			if nd.Pos() <= n.Pos() && n.End() <= nd.End() {
				// make sure n is not hidden inside a function literal of nd
				return point{b, i}, true
			}
		}
	}
	// a copy made by the inliner (inline.go) carries the position of the call it replaced and
	// may be longer than it: its start lies inside the node that holds it
	for _, b := range g.order {
		for i, nd := range b.Nodes {
			if nd.Pos() <= n.Pos() && n.Pos() < nd.End() {
				return point{b, i}, true
			}
		}
	}
	return point{}, false
}

// dominatesPt: point a is passed on every path from entry to point b.
func (g *FG) dominatesPt(a, b point) bool {
	if a.b == b.b {
		return a.idx <= b.idx
	}
	return g.blockDominates(a.b, b.b)
}

// nodeDominates: node a is executed before node b on every path reaching b.
func (g *FG) nodeDominates(a, b ast.Node) bool {
	pa, ok1 := g.locate(a)
	pb, ok2 := g.locate(b)
	if !ok1 || !ok2 {
		return false
	}
	if pa.b == pb.b {
		return pa.idx < pb.idx || (pa.idx == pb.idx && a.Pos() <= b.Pos())
	}
	return g.blockDominates(pa.b, pb.b)
}

// exit classification of a block without successors.
const (
	exitReturn = iota + 1
	exitPanic
)

func (g *FG) exitKind(b *cfg.Block) int {
	if len(b.Succs) != 0 {
		return 0
	}
	if len(b.Nodes) > 0 {
		if es, ok := b.Nodes[len(b.Nodes)-1].(*ast.ExprStmt); ok {
			if call, ok := es.X.(*ast.CallExpr); ok && noReturnCall(g.info, call) {
				return exitPanic
			}
		}
	}
	return exitReturn
}

// branchCond returns the condition expression that decides the two successors
// of b (Succs[0] on true, Succs[1] on false), or nil.
func (g *FG) branchCond(b *cfg.Block) ast.Expr {
	if len(b.Succs) != 2 || len(b.Nodes) == 0 {
		return nil
	}
	if e, ok := b.Nodes[len(b.Nodes)-1].(ast.Expr); ok {
		return e
	}
	return nil
}

// pathQuery describes a search for a path.
//
//	from:    start point
//	stop:    nodes that block a path (the path may not pass them)
//	goal:    called at every visited point boundary; a path "succeeds" when goal
//	         returns true for a node (before stop is applied to that node) or
//	         when goalExit matches the exit kind of a terminal block
//	edgeOK:  optional filter on branch edges (cond, polarity)
type pathQuery struct {
	from     point
	stop     func(n ast.Node) bool
	goalNode func(n ast.Node) bool
	goalExit func(kind int, b *cfg.Block) bool
	goalBlk  func(b *cfg.Block) bool // reached the *start* of this block (after leaving from)
	edgeOK   func(cond ast.Expr, polarity bool) bool
	// atLeastOnce: range loops that are known to run their body at least once (a non-empty
	// table).  The exit edge of such a loop is only taken after the body has been entered.
	atLeastOnce map[*cfg.Block]*cfg.Block // loop head -> done block
}

// exists reports whether a path satisfying q exists, and returns a witness node.
func (g *FG) exists(q pathQuery) (bool, ast.Node) {
	type item struct {
		b        *cfg.Block
		fromBody bool // reached over the back edge of an at-least-once loop (only meaningful for its head)
	}
	type vkey struct {
		b        *cfg.Block
		fromBody bool
	}
	visited := map[vkey]bool{}
	var work []item
	// inLoop: blocks of an at-least-once loop's body (reachable from its body successor without passing the head)
	inLoop := map[*cfg.Block]map[*cfg.Block]bool{}
	for head, done := range q.atLeastOnce {
		set := map[*cfg.Block]bool{}
		var stack []*cfg.Block
		for _, s := range head.Succs {
			if s != done {
				stack = append(stack, s)
			}
		}
		for len(stack) > 0 {
			b := stack[len(stack)-1]
			stack = stack[:len(stack)-1]
			if set[b] || b == head {
				continue
			}
			set[b] = true
			stack = append(stack, b.Succs...)
		}
		inLoop[head] = set
	}
	// scan scans block b from idx; returns (found, witness); pushes successors.
	scan := func(b *cfg.Block, idx int, fromBody bool) (bool, ast.Node) {
		for i := idx; i < len(b.Nodes); i++ {
			n := b.Nodes[i]
			if q.goalNode != nil && q.goalNode(n) {
				return true, n
			}
			if q.stop != nil && q.stop(n) {
				return false, nil
			}
		}
		if len(b.Succs) == 0 {
			if q.goalExit != nil && q.goalExit(g.exitKind(b), b) {
				var w ast.Node
				if len(b.Nodes) > 0 {
					w = b.Nodes[len(b.Nodes)-1]
				}
				return true, w
			}
			return false, nil
		}
		cond := g.branchCond(b)
		for si, s := range b.Succs {
			if cond != nil && q.edgeOK != nil && !q.edgeOK(cond, si == 0) {
				continue
			}
			if done, ok := q.atLeastOnce[b]; ok && s == done && !fromBody {
				continue // the loop runs at least once: no exit before the body
			}
			_, sIsHead := q.atLeastOnce[s]
			work = append(work, item{s, sIsHead && inLoop[s][b]})
		}
		return false, nil
	}
	if ok, w := scan(q.from.b, q.from.idx, false); ok {
		return true, w
	}
	for len(work) > 0 {
		it := work[len(work)-1]
		work = work[:len(work)-1]
		k := vkey{it.b, it.fromBody}
		if visited[k] {
			continue
		}
		visited[k] = true
		if q.goalBlk != nil && q.goalBlk(it.b) {
			return true, nil
		}
		if ok, w := scan(it.b, 0, it.fromBody); ok {
			return true, w
		}
	}
	return false, nil
}

// nonEmptyRangeLoops: the range loops of the graph's function over a package-level variable
// that is initialised with a non-empty composite literal and never assigned again.
func (g *FG) nonEmptyRangeLoops(c *Ctx, info *types.Info, body ast.Node) map[*cfg.Block]*cfg.Block {
	out := map[*cfg.Block]*cfg.Block{}
	ast.Inspect(body, func(x ast.Node) bool {
		rs, ok := x.(*ast.RangeStmt)
		if !ok {
			return true
		}
		nonEmpty := false
		switch t := ast.Unparen(rs.X).(type) {
		case *ast.CompositeLit:
			nonEmpty = len(t.Elts) > 0
		case *ast.Ident:
			if v, ok := info.Uses[t].(*types.Var); ok && v.Pkg() != nil && v.Parent() == v.Pkg().Scope() {
				if len(c.fieldWritesOfVar(v)) == 0 {
					if lit := c.packageVarLiteral(v); lit != nil && len(lit.Elts) > 0 {
						nonEmpty = true
					}
				}
			} else if ok {
				// a local defined once with a non-empty literal and never assigned or addressed again
				defs, lits := 0, 0
				ast.Inspect(body, func(y ast.Node) bool {
					switch st := y.(type) {
					case *ast.AssignStmt:
						for i, l := range st.Lhs {
							if identObj(info, l) == types.Object(v) {
								defs++
								if len(st.Lhs) == len(st.Rhs) {
									if lit, ok := ast.Unparen(st.Rhs[i]).(*ast.CompositeLit); ok && len(lit.Elts) > 0 {
										lits++
									}
								}
							}
						}
					case *ast.ValueSpec:
						for i, nm := range st.Names {
							if info.Defs[nm] == types.Object(v) {
								defs++
								if i < len(st.Values) {
									if lit, ok := ast.Unparen(st.Values[i]).(*ast.CompositeLit); ok && len(lit.Elts) > 0 {
										lits++
									}
								}
							}
						}
					case *ast.UnaryExpr:
						if st.Op == token.AND && identObj(info, st.X) == types.Object(v) {
							defs += 2
						}
					}
					return true
				})
				nonEmpty = defs == 1 && lits == 1
			}
		}
		if nonEmpty {
			head, _, done := g.loopBlocks(rs)
			if head != nil && done != nil {
				out[head] = done
			}
		}
		return true
	})
	return out
}

// after returns the point just after the CFG node containing n.
func (g *FG) after(n ast.Node) (point, bool) {
	p, ok := g.locate(n)
	if !ok {
		return p, false
	}
	return point{p.b, p.idx + 1}, true
}

// containsNode reports whether the subtree of outer contains inner (by position).
func containsNode(outer, inner ast.Node) bool {
	return outer.Pos() <= inner.Pos() && inner.End() <= outer.End()
}

// inspectNoLit walks n without entering function literals.
func inspectNoLit(n ast.Node, f func(ast.Node) bool) {
	ast.Inspect(n, func(x ast.Node) bool {
		if x == nil {
			return false
		}
		if _, ok := x.(*ast.FuncLit); ok && x != n {
			return false
		}
		return f(x)
	})
}

// callsIn lists the call expressions inside n (not inside function literals).
func callsIn(n ast.Node) []*ast.CallExpr {
	var out []*ast.CallExpr
	inspectNoLit(n, func(x ast.Node) bool {
		if c, ok := x.(*ast.CallExpr); ok {
			out = append(out, c)
		}
		return true
	})
	return out
}

// edgeConds returns the branch conditions whose given polarity edge dominates
// point p: p is reachable only through (cond == polarity).
type edgeCond struct {
	cond     ast.Expr
	polarity bool
}

func (g *FG) edgeConds(p point) []edgeCond {
	var out []edgeCond
	for _, b := range g.order {
		cond := g.branchCond(b)
		if cond == nil {
			continue
		}
		for si, s := range b.Succs {
			if len(g.preds[s]) == 1 && g.blockDominates(s, p.b) && b.Succs[1-si] != s {
				out = append(out, edgeCond{cond, si == 0})
			}
		}
	}
	return out
}

// loops returns every for/range statement in body (not inside function literals).
func loopsIn(body ast.Node) []ast.Stmt {
	var out []ast.Stmt
	inspectNoLit(body, func(x ast.Node) bool {
		switch x.(type) {
		case *ast.ForStmt, *ast.RangeStmt:
			out = append(out, x.(ast.Stmt))
		}
		return true
	})
	return out
}

// funcLitsIn lists function literals directly inside n (outermost only).
func funcLitsIn(n ast.Node) []*ast.FuncLit {
	var out []*ast.FuncLit
	ast.Inspect(n, func(x ast.Node) bool {
		if fl, ok := x.(*ast.FuncLit); ok {
			out = append(out, fl)
			return false
		}
		return true
	})
	return out
}

var _ = token.NoPos

// errorEdgeDiverges: cond is `e != nil` or `e == nil` and ends a block of the graph.  The edge
// on which e is non-nil must lead somewhere else than the edge on which it is nil: the return
// statements reachable from the two edges are disjoint (a panic reaches none).  A test whose
// two outcomes meet again before the same return rejects nothing.
func (g *FG) errorEdgeDiverges(cond *ast.BinaryExpr) bool {
	for _, b := range g.order {
		if len(b.Succs) != 2 || len(b.Nodes) == 0 {
			continue
		}
		last, ok := b.Nodes[len(b.Nodes)-1].(ast.Expr)
		if !ok || ast.Unparen(last) != ast.Expr(cond) {
			continue
		}
		errEdge, okEdge := b.Succs[0], b.Succs[1] // != : true edge is the failing one
		if cond.Op == token.EQL {
			errEdge, okEdge = okEdge, errEdge
		}
		reach := func(from *cfg.Block) map[ast.Node]bool {
			out := map[ast.Node]bool{}
			seen := map[*cfg.Block]bool{}
			work := []*cfg.Block{from}
			for len(work) > 0 {
				x := work[len(work)-1]
				work = work[:len(work)-1]
				if seen[x] {
					continue
				}
				seen[x] = true
				for _, n := range x.Nodes {
					if rs, ok := n.(*ast.ReturnStmt); ok {
						out[rs] = true
					}
				}
				if len(x.Succs) == 0 && g.exitKind(x) == exitReturn && len(x.Nodes) == 0 {
					out[nil] = true
				}
				work = append(work, x.Succs...)
			}
			return out
		}
		re, ro := reach(errEdge), reach(okEdge)
		for n := range re {
			if ro[n] {
				return false
			}
		}
		return true
	}
	return true // not a branch condition of this graph (part of a larger expression): keep the old reading
}
