package main

// Reset on every path: RemoveAll must leave the collection in its initial state whatever
// state it finds it in.  A path through RemoveAll that returns without performing the
// clearing actions is acceptable only when the conditions that select it say that the
// collection is empty already - and even then only for state that emptiness implies (a
// channel that the class closes somewhere is not "reset" just because nothing is queued).
//
// The rule works on positive evidence only: the selecting conditions must resolve (through
// locals, tuple results and named results of helpers) to comparisons whose meaning is known;
// anything opaque makes the verdict not-evaluated.

import (
	"fmt"
	"go/ast"
	"go/constant"
	"go/token"
	"go/types"
	"sort"
	"strings"
)

type emptFact int

const (
	factEmpty emptFact = iota
	factNonEmpty
	factOther
	factUnknown
)

type emptResolver struct {
	c     *Ctx
	depth int
}

// tupleDef finds the single definition of id's object inside owner.  It returns either the
// defining expression, or the defining call and the index of the result that id receives.
func tupleDef(info *types.Info, owner ast.Node, id *ast.Ident) (init ast.Expr, call *ast.CallExpr, idx int) {
	obj := info.Uses[id]
	if obj == nil {
		obj = info.Defs[id]
	}
	if obj == nil {
		return nil, nil, 0
	}
	cnt := 0
	ast.Inspect(owner, func(x ast.Node) bool {
		switch s := x.(type) {
		case *ast.ValueSpec:
			for i, nm := range s.Names {
				if info.Defs[nm] != obj {
					continue
				}
				cnt++
				if len(s.Values) == len(s.Names) {
					init, call = ast.Unparen(s.Values[i]), nil
				} else if len(s.Values) == 1 {
					if ce, ok := ast.Unparen(s.Values[0]).(*ast.CallExpr); ok {
						init, call, idx = nil, ce, i
					}
				}
			}
		case *ast.AssignStmt:
			for i, l := range s.Lhs {
				lid, ok := l.(*ast.Ident)
				if !ok || !(info.Defs[lid] == obj || info.Uses[lid] == obj) {
					continue
				}
				cnt++
				if s.Tok != token.ASSIGN && s.Tok != token.DEFINE {
					cnt++ // compound assignment: not a definition
				}
				if len(s.Rhs) == len(s.Lhs) {
					init, call = ast.Unparen(s.Rhs[i]), nil
				} else if len(s.Rhs) == 1 {
					if ce, ok := ast.Unparen(s.Rhs[0]).(*ast.CallExpr); ok {
						init, call, idx = nil, ce, i
					}
				}
			}
		case *ast.IncDecStmt:
			if lid, ok := s.X.(*ast.Ident); ok && info.Uses[lid] == obj {
				cnt += 2
			}
		}
		return true
	})
	if cnt != 1 {
		return nil, nil, 0
	}
	return init, call, idx
}

// resultExpr: the expression that the idx-th result of the declared callee of call stands for,
// together with the declaration it has to be read in.
func (er *emptResolver) resultExpr(info *types.Info, call *ast.CallExpr, idx int) (ast.Expr, *ast.FuncDecl) {
	fn := calleeOf(info, call)
	if fn == nil {
		return nil, nil
	}
	d := er.c.declOf(fn)
	if d == nil || d.Body == nil || d.Type.Results == nil {
		return nil, nil
	}
	var rets []*ast.ReturnStmt
	inspectNoLit(d.Body, func(x ast.Node) bool {
		if rs, ok := x.(*ast.ReturnStmt); ok {
			rets = append(rets, rs)
		}
		return true
	})
	if len(rets) != 1 {
		return nil, nil
	}
	if idx < len(rets[0].Results) && len(rets[0].Results) > 1 || (idx == 0 && len(rets[0].Results) == 1) {
		return ast.Unparen(rets[0].Results[idx]), d
	}
	if len(rets[0].Results) == 0 {
		// bare return of named results
		k := 0
		for _, f := range d.Type.Results.List {
			for _, nm := range f.Names {
				if k == idx {
					return nm, d
				}
				k++
			}
		}
	}
	return nil, nil
}

// isSize: e denotes the number of values held (len, GetSize, a conversion of one, a local
// defined as one).
func (er *emptResolver) isSize(owner *ast.FuncDecl, e ast.Expr, depth int) bool {
	if depth > 6 || owner == nil {
		return false
	}
	info := er.c.infoFor(owner)
	if info == nil {
		return false
	}
	e = ast.Unparen(e)
	switch x := e.(type) {
	case *ast.CallExpr:
		if tv, ok := info.Types[x.Fun]; ok && tv.IsType() && len(x.Args) == 1 {
			return er.isSize(owner, x.Args[0], depth+1)
		}
		if id, ok := ast.Unparen(x.Fun).(*ast.Ident); ok && id.Name == "len" && len(x.Args) == 1 {
			if _, isB := info.Uses[id].(*types.Builtin); isB {
				return true
			}
		}
		if fn := calleeOf(info, x); fn != nil && fn.Name() == "GetSize" && len(x.Args) == 0 {
			return true
		}
		if fn := calleeOf(info, x); fn != nil {
			if sig, ok := fn.Type().(*types.Signature); ok && sig.Results().Len() == 1 {
				if re, d := er.resultExpr(info, x, 0); re != nil {
					return er.isSize(d, re, depth+1)
				}
			}
		}
	case *ast.Ident:
		init, call, idx := tupleDef(info, owner, x)
		if init != nil {
			return er.isSize(owner, init, depth+1)
		}
		if call != nil {
			if re, d := er.resultExpr(info, call, idx); re != nil {
				return er.isSize(d, re, depth+1)
			}
		}
	}
	return false
}

func constIntExpr(info *types.Info, e ast.Expr) (int64, bool) {
	if tv, ok := info.Types[e]; ok && tv.Value != nil {
		if v, exact := constant.Int64Val(constant.ToInt(tv.Value)); exact {
			return v, true
		}
	}
	return 0, false
}

// facts: what is known about emptiness when e evaluates to truth.
func (er *emptResolver) facts(owner *ast.FuncDecl, e ast.Expr, truth bool, depth int) []emptFact {
	if depth > 8 || owner == nil {
		return []emptFact{factUnknown}
	}
	info := er.c.infoFor(owner)
	if info == nil {
		return []emptFact{factUnknown}
	}
	e = ast.Unparen(e)
	switch x := e.(type) {
	case *ast.UnaryExpr:
		if x.Op == token.NOT {
			return er.facts(owner, x.X, !truth, depth+1)
		}
	case *ast.BinaryExpr:
		switch x.Op {
		case token.LAND, token.LOR:
			if (x.Op == token.LAND) == truth {
				return append(er.facts(owner, x.X, truth, depth+1), er.facts(owner, x.Y, truth, depth+1)...)
			}
			a, b := er.facts(owner, x.X, truth, depth+1), er.facts(owner, x.Y, truth, depth+1)
			if len(a) == 1 && len(b) == 1 && a[0] == b[0] {
				return a
			}
			return []emptFact{factUnknown}
		case token.EQL, token.NEQ, token.LSS, token.LEQ, token.GTR, token.GEQ:
			op, l, rgt := x.Op, x.X, x.Y
			if _, isC := constIntExpr(info, l); isC {
				// constant on the left: mirror
				l, rgt = rgt, l
				switch op {
				case token.LSS:
					op = token.GTR
				case token.LEQ:
					op = token.GEQ
				case token.GTR:
					op = token.LSS
				case token.GEQ:
					op = token.LEQ
				}
			}
			k, isC := constIntExpr(info, rgt)
			if !isC {
				// nil tests say nothing about emptiness either way; two non-constant operands
				// compare the state with something else (a capacity, another size)
				if id, ok := ast.Unparen(rgt).(*ast.Ident); ok && id.Name == "nil" {
					return []emptFact{factUnknown}
				}
				if tl, ok := info.Types[l]; ok {
					if b, ok := tl.Type.Underlying().(*types.Basic); ok && b.Info()&types.IsNumeric != 0 {
						return []emptFact{factOther}
					}
				}
				return []emptFact{factUnknown}
			}
			if !er.isSize(owner, l, 0) {
				return []emptFact{factUnknown}
			}
			// size <op> k  holds (truth) / does not hold (!truth)
			if !truth {
				switch op {
				case token.EQL:
					op = token.NEQ
				case token.NEQ:
					op = token.EQL
				case token.LSS:
					op = token.GEQ
				case token.LEQ:
					op = token.GTR
				case token.GTR:
					op = token.LEQ
				case token.GEQ:
					op = token.LSS
				}
			}
			// a size is never negative
			switch {
			case op == token.EQL && k == 0, op == token.LEQ && k <= 0, op == token.LSS && k <= 1:
				return []emptFact{factEmpty}
			case op == token.NEQ && k == 0, op == token.GTR && k >= 0, op == token.GEQ && k >= 1, op == token.EQL && k >= 1:
				return []emptFact{factNonEmpty}
			}
			return []emptFact{factOther}
		}
	case *ast.CallExpr:
		if fn := calleeOf(info, x); fn != nil {
			if fn.Name() == "IsEmpty" && len(x.Args) == 0 {
				if truth {
					return []emptFact{factEmpty}
				}
				return []emptFact{factNonEmpty}
			}
			if sig, ok := fn.Type().(*types.Signature); ok && sig.Results().Len() == 1 {
				if re, d := er.resultExpr(info, x, 0); re != nil {
					return er.facts(d, re, truth, depth+1)
				}
			}
		}
	case *ast.Ident:
		init, call, idx := tupleDef(info, owner, x)
		if init != nil {
			return er.facts(owner, init, truth, depth+1)
		}
		if call != nil {
			if re, d := er.resultExpr(info, call, idx); re != nil {
				return er.facts(d, re, truth, depth+1)
			}
		}
	}
	return []emptFact{factUnknown}
}

// checkResetOnEveryPath is the path part of the reset-complete rule.
func checkResetOnEveryPath(c *Ctx, r *Rec, rule string, n *types.Named) {
	if n == nil {
		return
	}
	role := c.roleOf(n.Obj().Pkg())
	ms := c.methodsOf(n)
	reset := ms["RemoveAll"]
	st := structOf(n)
	if reset == nil || reset.Body == nil || st == nil {
		return
	}
	info := c.infoFor(reset)
	recv := recvObj(info, reset)
	if info == nil || recv == nil {
		return
	}
	construct := role + "." + n.Obj().Name() + ".RemoveAll/every-path"
	fieldOf := func(e ast.Expr) *types.Var {
		sel, ok := ast.Unparen(e).(*ast.SelectorExpr)
		if !ok || !isObj(info, sel.X, recv) {
			return nil
		}
		if s, ok := info.Selections[sel]; ok && s.Kind() == types.FieldVal {
			if v, ok := s.Obj().(*types.Var); ok {
				return v
			}
		}
		return nil
	}
	// clearing helpers: unexported methods of the type that (transitively) assign a field or
	// call a remover on one
	var clears func(body ast.Node, seen map[*ast.FuncDecl]bool) []*types.Var
	clearsOf := func(x ast.Node, seen map[*ast.FuncDecl]bool) []*types.Var {
		var out []*types.Var
		switch s := x.(type) {
		case *ast.AssignStmt:
			for _, l := range s.Lhs {
				if f := fieldOf(l); f != nil {
					out = append(out, f)
				}
			}
		case *ast.CallExpr:
			if sel, ok := ast.Unparen(s.Fun).(*ast.SelectorExpr); ok {
				if f := fieldOf(sel.X); f != nil && (strings.HasPrefix(sel.Sel.Name, "Remove") || sel.Sel.Name == "Clear") {
					out = append(out, f)
				}
			}
			if id, ok := ast.Unparen(s.Fun).(*ast.Ident); ok && id.Name == "clear" && len(s.Args) == 1 {
				if f := fieldOf(s.Args[0]); f != nil {
					out = append(out, f)
				}
			}
			if fn := calleeOf(info, s); fn != nil && !fn.Exported() {
				if d := c.declOf(fn); d != nil && d.Body != nil && !seen[d] && c.infoFor(d) == info {
					if rn := recvNamedOfDecl(c, d); rn != nil && rn.Origin() == n.Origin() {
						if sel, ok := ast.Unparen(s.Fun).(*ast.SelectorExpr); ok && isObj(info, sel.X, recv) {
							seen[d] = true
							// the helper's own receiver differs: compare fields by object
							hinfo := c.infoFor(d)
							hrecv := recvObj(hinfo, d)
							ast.Inspect(d.Body, func(y ast.Node) bool {
								if as, ok := y.(*ast.AssignStmt); ok {
									for _, l := range as.Lhs {
										if hs, ok := ast.Unparen(l).(*ast.SelectorExpr); ok && isObj(hinfo, hs.X, hrecv) {
											if hv, ok := hinfo.Selections[hs]; ok && hv.Kind() == types.FieldVal {
												out = append(out, hv.Obj().(*types.Var))
											}
										}
									}
								}
								if ce, ok := y.(*ast.CallExpr); ok {
									if hs, ok := ast.Unparen(ce.Fun).(*ast.SelectorExpr); ok {
										if inner, ok := ast.Unparen(hs.X).(*ast.SelectorExpr); ok && isObj(hinfo, inner.X, hrecv) && strings.HasPrefix(hs.Sel.Name, "Remove") {
											if hv, ok := hinfo.Selections[inner]; ok && hv.Kind() == types.FieldVal {
												out = append(out, hv.Obj().(*types.Var))
											}
										}
									}
								}
								return true
							})
						}
					}
				}
			}
		}
		return out
	}
	clears = func(body ast.Node, seen map[*ast.FuncDecl]bool) []*types.Var {
		var out []*types.Var
		inspectNoLit(body, func(x ast.Node) bool {
			out = append(out, clearsOf(x, seen)...)
			return true
		})
		return out
	}
	// the graph that holds the clearing actions: the method body, or the one function literal
	// inside it that does (a critical section handed to a helper)
	var body *ast.BlockStmt
	if len(clears(reset.Body, map[*ast.FuncDecl]bool{})) > 0 {
		body = reset.Body
	} else {
		for _, fl := range funcLitsIn(reset.Body) {
			if len(clears(fl.Body, map[*ast.FuncDecl]bool{})) > 0 {
				if body != nil {
					r.skip(rule, construct, c.pos(reset.Pos()), "the clearing actions are spread over several function literals")
					return
				}
				body = fl.Body
			}
		}
	}
	if body == nil {
		r.skip(rule, construct, c.pos(reset.Pos()), "no clearing action found in RemoveAll (delegated elsewhere)")
		return
	}
	g := newFG(info, body)
	cleared := map[*types.Var]bool{}
	isClear := func(x ast.Node) bool {
		hit := false
		inspectNoLit(x, func(y ast.Node) bool {
			for _, f := range clearsOf(y, map[*ast.FuncDecl]bool{}) {
				cleared[f] = true
				hit = true
			}
			return true
		})
		return hit
	}
	for _, b := range g.order {
		for _, nd := range b.Nodes {
			isClear(nd)
		}
	}
	// channels of the class that some method closes
	closable := map[*types.Var]bool{}
	for _, m := range ms {
		if m.Body == nil {
			continue
		}
		minfo := c.infoFor(m)
		mrecv := recvObj(minfo, m)
		ast.Inspect(m.Body, func(x ast.Node) bool {
			if ce, ok := x.(*ast.CallExpr); ok && len(ce.Args) == 1 {
				if id, ok := ast.Unparen(ce.Fun).(*ast.Ident); ok && id.Name == "close" {
					if sel, ok := ast.Unparen(ce.Args[0]).(*ast.SelectorExpr); ok && isObj(minfo, sel.X, mrecv) {
						if s, ok := minfo.Selections[sel]; ok && s.Kind() == types.FieldVal {
							closable[s.Obj().(*types.Var)] = true
						}
					}
				}
			}
			return true
		})
	}
	er := &emptResolver{c: c}
	// owner declaration for resolving locals: the method (locals of a literal are found too,
	// tupleDef inspects the whole declaration)
	var rets []ast.Node
	inspectNoLit(body, func(x ast.Node) bool {
		if rs, ok := x.(*ast.ReturnStmt); ok {
			rets = append(rets, rs)
		}
		return true
	})
	evaluated := 0
	for _, ret := range rets {
		ret := ret
		ok, _ := g.exists(pathQuery{from: point{g.entry(), 0}, stop: func(x ast.Node) bool { return x != ret && isClear(x) }, goalNode: func(x ast.Node) bool { return x == ret }})
		if !ok {
			continue
		}
		p, located := g.locate(ret)
		if !located {
			continue
		}
		conds := g.edgeConds(p)
		if len(conds) == 0 {
			continue
		}
		var fs []emptFact
		var texts []string
		for _, ec := range conds {
			fs = append(fs, er.facts(reset, ec.cond, ec.polarity, 0)...)
			t := exprStr(ec.cond)
			if !ec.polarity {
				t = "!(" + t + ")"
			}
			texts = append(texts, t)
		}
		has := func(f emptFact) bool {
			for _, x := range fs {
				if x == f {
					return true
				}
			}
			return false
		}
		evaluated++
		switch {
		case has(factEmpty):
			// emptiness excuses counters and containers, not the open/closed state of a channel
			var bad []string
			for f := range cleared {
				if _, isChan := f.Type().Underlying().(*types.Chan); isChan && closable[f] {
					mentioned := false
					for _, ec := range conds {
						ast.Inspect(ec.cond, func(y ast.Node) bool {
							if e, ok := y.(ast.Expr); ok && fieldOf(e) == f {
								mentioned = true
							}
							return true
						})
					}
					if !mentioned {
						bad = append(bad, f.Name())
					}
				}
			}
			sort.Strings(bad)
			if len(bad) > 0 {
				r.fail(rule, construct, c.pos(ret.Pos()), fmt.Sprintf("RemoveAll returns early when %s without replacing the channel %s, which another method closes: an empty collection whose channel has been closed stays closed, although RemoveAll is what starts the next life of the collection", strings.Join(texts, " and "), strings.Join(bad, ",")))
				return
			}
		case has(factUnknown):
			evaluated--
		default:
			r.fail(rule, construct, c.pos(ret.Pos()), fmt.Sprintf("RemoveAll returns early when %s, a condition that does not say that the collection is empty: in that state the values stay", strings.Join(texts, " and ")))
			return
		}
	}
	if evaluated > 0 {
		r.ok(rule, construct, c.pos(reset.Pos()), fmt.Sprintf("%d early return(s) before the clearing actions, each selected by an emptiness test", evaluated))
	} else {
		r.ok(rule, construct, c.pos(reset.Pos()), "no path through RemoveAll avoids the clearing actions (or the selecting conditions are opaque)")
	}
}
