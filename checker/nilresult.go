package main

// A method of a collection that promises a sequence returns a sequence: never the nil
// interface value.  The caller's first use of such a result (GetSize, GetIterator, ...)
// would be a nil dereference.  The rule follows the returned expression through locals that
// are defined once and through the results of declared functions of the same package.

import (
	"go/ast"
	"go/types"
)

// nilResultWitness returns the position of a `nil` that reaches result idx of fd, or "".
func nilResultWitness(c *Ctx, fd *ast.FuncDecl, idx int, depth int, seen map[*ast.FuncDecl]bool) string {
	if fd == nil || fd.Body == nil || depth > 4 || seen[fd] {
		return ""
	}
	seen[fd] = true
	info := c.infoFor(fd)
	if info == nil {
		return ""
	}
	var isNil func(e ast.Expr, d int) string
	isNil = func(e ast.Expr, d int) string {
		e = ast.Unparen(e)
		if d > 4 {
			return ""
		}
		switch x := e.(type) {
		case *ast.Ident:
			if _, ok := info.Uses[x].(*types.Nil); ok {
				return c.pos(x.Pos())
			}
			if init, call, i := tupleDef(info, fd, x); init != nil {
				return isNil(init, d+1)
			} else if call != nil {
				if fn := calleeOf(info, call); fn != nil {
					return nilResultWitness(c, c.declOf(fn), i, depth+1, seen)
				}
			}
		case *ast.CallExpr:
			if tv, ok := info.Types[x.Fun]; ok && tv.IsType() && len(x.Args) == 1 {
				// a conversion to the interface type of an untyped nil stays nil
				if _, isIface := tv.Type.Underlying().(*types.Interface); isIface {
					return isNil(x.Args[0], d+1)
				}
				return ""
			}
			if fn := calleeOf(info, x); fn != nil {
				if cd := c.declOf(fn); cd != nil && c.infoFor(cd) != nil {
					return nilResultWitness(c, cd, 0, depth+1, seen)
				}
			}
		}
		return ""
	}
	// named results: a bare return hands out the current value; a result that is never
	// assigned is nil
	var named []*ast.Ident
	if fd.Type.Results != nil {
		for _, f := range fd.Type.Results.List {
			if len(f.Names) == 0 {
				named = append(named, nil)
			}
			for _, nm := range f.Names {
				named = append(named, nm)
			}
		}
	}
	w := ""
	inspectNoLit(fd.Body, func(n ast.Node) bool {
		rs, ok := n.(*ast.ReturnStmt)
		if !ok || w != "" {
			return true
		}
		switch {
		case idx < len(rs.Results) && (len(rs.Results) > 1 || idx == 0) && len(rs.Results) == len(named):
			w = isNil(rs.Results[idx], 0)
		case len(rs.Results) == 1 && len(named) > 1:
			// return f() spreading a tuple
			if call, ok := ast.Unparen(rs.Results[0]).(*ast.CallExpr); ok {
				if fn := calleeOf(info, call); fn != nil {
					w = nilResultWitness(c, c.declOf(fn), idx, depth+1, seen)
				}
			}
		}
		return true
	})
	return w
}

// checkResultsAreCollections applies the rule to the exported methods of one class.
func checkResultsAreCollections(c *Ctx, r *Rec, rule string, n *types.Named) {
	if n == nil {
		return
	}
	role := c.roleOf(n.Obj().Pkg())
	for name, fd := range c.methodsOf(n) {
		if !ast.IsExported(name) || fd.Body == nil {
			continue
		}
		fn := c.funcOf(fd)
		if fn == nil {
			continue
		}
		sig := fn.Type().(*types.Signature)
		for i := 0; i < sig.Results().Len(); i++ {
			rt := sig.Results().At(i).Type()
			if _, isIface := rt.Underlying().(*types.Interface); !isIface || !isCollectionLike(rt) {
				continue
			}
			construct := role + "." + n.Obj().Name() + "." + name + "/result"
			if w := nilResultWitness(c, fd, i, 0, map[*ast.FuncDecl]bool{}); w != "" {
				r.fail(rule, construct, c.pos(fd.Pos()), "the nil at "+w+" is returned in place of a "+shortType(rt)+": the caller's first use of the result dereferences nil; an empty result is an empty collection")
			} else {
				r.ok(rule, construct, c.pos(fd.Pos()), "no nil literal reaches the result")
			}
		}
	}
}
