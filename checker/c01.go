package main

// C01 — List and Array behave as an ordinal-indexed sequence.

import (
	"fmt"
	"go/ast"
	"go/token"
	"go/types"
	"sort"
	"strings"

	"golang.org/x/tools/go/cfg"
)

func init() {
	register(&propInfo{
		ID:      "C01",
		Engines: "SYM (octagon tables), PATH (go/cfg: loop progress, commit-last, reaching definitions)",
		Decided: "D1 every Go index/slice expression on the array's storage uses only normalised positions, list index parameters reach only the ordinal API or the list's normaliser, insert slots are gated against the size with a panic; " +
			"D2 both ordinal normalisers equal their specification on all integers (size=0, index=0, out of range -> panic; negative -> index+size(+1); positive -> index-1 (index)); " +
			"D2b the slice bounds and make sizes of the array's range read/write are the documented linear forms of the normalised positions; " +
			"D2c GetIndex returns i+1 for the first match at zero-based i and 0 otherwise, ContainsValue/Any/All test it against 0 the right way round; " +
			"D3 every loop of the array and list types is in a terminating loop-progress form; " +
			"D4 every list mutator commits its new storage as its last effect (a panicking call leaves the list unchanged), array writes are dominated by their normaliser calls; " +
			"D5 no internal caller passes a definitely-zero ordinal." +
			" Also: ContainsAny/ContainsAll of an empty operand are false/true (evaluated for inputs on which no loop body runs, helpers interpreted with their constant arguments); receiver-aliased operands are read before anything of the receiver changes; in the array no bounds check is reachable after a write; the list's backing array is made by the constructor, never adopted from an argument; reversal swaps mirror positions exactly while the lower one is below the upper one." +
			" Round 7: a size computed in unsigned arithmetic is not decremented where it may be zero; an index guard that compares the index with the length excludes the length itself; element values are not compared with Go's == through empty interfaces (panics for uncomparable types); RemoveAll clears on every path that is not selected by an emptiness test." +
			" Rounds 8-9: readers assign no field; no exported method computes with a caller-given unsigned slot before a condition on it; slices.Clone of an argument is not a collection's storage; membership is not decided by comparing sizes; consecutive copies tile their destination.",
		NotDecided: "that the rebuild loops place every element at the right position (loop-carried arithmetic), range semantics beyond the two normaliser calls, equality semantics of GetIndex (C08), sort/reverse (C09).",
		Run:        runC01,
	})
}

// snapshotOfReceiver: e is <receiver>.AsArray(), or a local variable whose single definition
// in scope is that call: its length is the size of the collection.
func snapshotOfReceiver(info *types.Info, scope ast.Node, isRecv func(ast.Expr) bool, e ast.Expr) bool {
	e = ast.Unparen(e)
	if id, ok := e.(*ast.Ident); ok {
		init := initOfIn(info, scope, id)
		if init == nil {
			return false
		}
		e = ast.Unparen(init)
	}
	rx, mname, call, ok := methodCall(e)
	return ok && mname == "AsArray" && len(call.Args) == 0 && isRecv(rx)
}

// collectionSymEnv builds a SYM environment for a method of a collection type:
// GetSize()/len() of the receiver (or of its storage field) is the symbol
// "size"; calls of the given normalisers become symbols z:<argument>.
func collectionSymEnv(c *Ctx, info *types.Info, fd *ast.FuncDecl, normalisers map[*types.Func]bool) *symEnv {
	recv := recvObj(info, fd)
	env := &symEnv{info: info, recvs: map[types.Object]bool{}}
	if recv != nil {
		env.recvs[recv] = true
	}
	env.base = Cube{linSym("size").scale(-1)} // size >= 0
	env.inlineSkip = map[*types.Func]bool{}
	for fn := range normalisers {
		env.inlineSkip[fn] = true
	}
	enableInlining(c, env, fd, nil)
	env.resolve = func(e ast.Expr) (Val, bool) {
		call, ok := e.(*ast.CallExpr)
		if !ok {
			return Val{}, false
		}
		if (isBuiltinCall(info, call, "len")) && len(call.Args) == 1 {
			isSnap := env.isRecvRooted(call.Args[0]) || snapshotOfReceiver(info, fd.Body, env.isRecvRooted, call.Args[0])
			for _, hd := range env.inlineStack { // a snapshot taken inside a helper that is being interpreted in place
				if !isSnap && hd.Body != nil {
					isSnap = snapshotOfReceiver(info, hd.Body, env.isRecvRooted, call.Args[0])
				}
			}
			if isSnap {
				return Val{Lin: linSym("size")}, true
			}
		}
		if rx, name, _, ok := methodCall(call); ok {
			if name == "GetSize" && len(call.Args) == 0 && env.isRecvRooted(rx) {
				return Val{Lin: linSym("size")}, true
			}
			if fn := calleeOf(info, call); fn != nil && normalisers[fn.Origin()] && len(call.Args) == 1 {
				// argument evaluated in an empty state is wrong; handled by caller via zcall
				return Val{}, false
			}
		}
		return Val{}, false
	}
	return env
}

func runC01(c *Ctx, r *Rec) {
	arr := c.mustImpl(r, "bind", "collection", "ArrayLike")
	lst := c.mustImpl(r, "bind", "collection", "ListLike")
	arrClass := c.mustImpl(r, "bind", "collection", "ArrayClassLike")
	lstClass := c.mustImpl(r, "bind", "collection", "ListClassLike")
	if arr == nil || lst == nil || arrClass == nil || lstClass == nil {
		return
	}
	info := c.info("collection")

	shapeLints(c, r, append(fileFuncs(c, "collection", arr, lst, arrClass, lstClass), moduleFuncsReturning(c, "ArrayLike", "ListLike")...))
	checkReceiverWrites(c, r, "D4-receiver-writes-persist", lst)
	checkResetCompleteness(c, r, "D4-reset-complete", lst)
	checkReadersWriteNothing(c, r, "D4-readers-write-nothing", lst)
	checkTypeLockPairing(c, r, "D4-lock-released", lst)
	checkTypeLockPairing(c, r, "D4-lock-released", arr)
	checkReceiverWrites(c, r, "D4-receiver-writes-persist", arr)
	{
		files := map[string]bool{}
		for _, n := range []*types.Named{arr, lst} {
			for _, fd := range c.methodsOf(n) {
				files[c.Fset.Position(fd.Pos()).Filename] = true
			}
		}
		var fds []*ast.FuncDecl
		for _, fd := range c.allFuncDecls("collection") {
			if files[c.Fset.Position(fd.Pos()).Filename] {
				fds = append(fds, fd)
			}
		}
		checkUnsignedSizeMinus(c, r, "D2-unsigned-size-minus", fds)
		checkIndexGuardAdmitsLength(c, r, "D2-guard-excludes-the-length", fds)
		checkNoDynamicEquality(c, r, "D2c-no-dynamic-equality", fds)
		checkCopiesTile(c, r, "D6-copies-tile", fds)
		checkUnsignedExtremes(c, r, "D1-unsigned-extremes", fds, nil)
		checkCloneKeepsNil(c, r, "D4-clone-keeps-nil", fds)
		checkContainsNotDecidedBySizes(c, r, "D2c-membership-not-by-sizes", lst)
	}
	// ---- D2 normalisers
	type layer struct {
		n      *types.Named
		name   string
		offset int64 // result for positive index = index-1+offset
	}
	normalisers := map[*types.Func]bool{}
	var arrNorm, lstNorm *ast.FuncDecl
	for _, l := range []layer{{arr, "array", 0}, {lst, "list", 1}} {
		cands := c.unexportedIntToInt(l.n)
		// the normaliser is the candidate that the exported methods hand their int index parameters to
		uses := map[*ast.FuncDecl]int{}
		for mname, m := range c.methodsOf(l.n) {
			if !ast.IsExported(mname) {
				continue
			}
			mp := paramObjs(info, m)
			ast.Inspect(m.Body, func(x ast.Node) bool {
				call, ok := x.(*ast.CallExpr)
				if !ok || len(call.Args) != 1 {
					return true
				}
				for _, cand := range cands {
					if cf := calleeOf(info, call); cf != nil && c.funcOf(cand) != nil && cf.Origin() == c.funcOf(cand).Origin() {
						for _, p := range mp {
							if b, ok := p.Type().Underlying().(*types.Basic); ok && b.Kind() == types.Int && isObj(info, call.Args[0], p) {
								uses[cand]++
							}
						}
					}
				}
				return true
			})
		}
		sort.SliceStable(cands, func(i, j int) bool { return uses[cands[i]] > uses[cands[j]] })
		var bound *ast.FuncDecl
		for _, fd := range cands {
			// the normaliser is the func(int) int whose body panics and reads the size
			hasPanic := false
			var look func(body ast.Node, depth int)
			look = func(body ast.Node, depth int) {
				ast.Inspect(body, func(x ast.Node) bool {
					call, ok := x.(*ast.CallExpr)
					if !ok {
						return true
					}
					if isBuiltinCall(info, call, "panic") {
						hasPanic = true
					} else if cf := calleeOf(info, call); cf != nil && !cf.Exported() && depth < 2 {
						if d := c.declOf(cf); d != nil && d.Body != nil && c.infoFor(d) == info {
							look(d.Body, depth+1)
						}
					}
					return true
				})
			}
			look(fd.Body, 0)
			if hasPanic {
				bound = fd
				break
			}
		}
		if bound == nil {
			r.skip("D2-normaliser", "collection."+l.n.Obj().Name(), "", "no private func(int) int normaliser with a bounds panic found on the "+l.name+" type: the index rules that rest on it are not evaluated")
			continue
		}
		normalisers[c.funcOf(bound)] = true
		if l.offset == 0 {
			arrNorm = bound
		} else {
			lstNorm = bound
		}
		checkNormaliser(c, r, info, bound, l.offset)
	}
	r.floor("D2-normaliser", 2)
	if lstNorm == nil {
		r.skip("D1-list-index-param", "collection."+lst.Obj().Name(), "", "the list's normaliser could not be bound")
	}
	if arrNorm == nil {
		r.skip("D1-array-index", "collection."+arr.Obj().Name(), "", "the array's normaliser could not be bound")
	}

	// ---- D1/D2b array accesses
	if arrNorm != nil {
		checkArrayAccesses(c, r, info, arr, c.funcOf(arrNorm))
	}
	r.floor("D1-array-index", 1)

	// ---- D1 list parameters
	if lstNorm != nil {
		checkListIndexParams(c, r, info, lst, c.funcOf(lstNorm))
	}
	r.floor("D1-list-index-param", 1)
	checkSlotGates(c, r, info, lst)
	r.floor("D1-slot-gate", 2)

	// ---- D2c search convention
	checkSearchConvention(c, r, info, lst)
	r.floor("D2c-search", 4)

	// ---- D3 loops
	for _, n := range []*types.Named{arr, lst, arrClass, lstClass} {
		ms := c.methodsOf(n)
		for _, name := range sortedKeys(ms) {
			checkLoops(c, r, "D3-loop-progress", ms[name], nil)
		}
	}
	r.floorSoft("D3-loop-progress", "loops", "no loop is left in the methods this rule looks at")

	// ---- D6 rebuild steps
	if lstNorm != nil {
		checkRebuildSteps(c, r, info, lst, c.funcOf(lstNorm))
	}

	// ---- D4 commit-last
	checkCommitLast(c, r, info, lst)
	r.floor("D4-commit-last", 1)
	if arrNorm != nil {
		checkArrayWriteOrder(c, r, info, arr, c.funcOf(arrNorm))
	}

	// ---- D4 receiver-aliased operands: nothing of the receiver changes before the operand is read
	for _, tn := range []*types.Named{arr, lst} {
		ms := c.methodsOf(tn)
		for _, name := range sortedKeys(ms) {
			fd := ms[name]
			fn := c.funcOf(fd)
			if fn == nil || !fn.Exported() {
				continue
			}
			sig := fn.Type().(*types.Signature)
			for i := 0; i < sig.Params().Len(); i++ {
				p := sig.Params().At(i)
				if !isSequentialParam(p.Type()) {
					continue
				}
				bad := mutationBeforeOperandRead(c, info, fd, p)
				r.check(bad == "", "D4-operand-read-first", c.fdName(fd)+"/"+p.Name(), c.pos(fd.Pos()),
					"no change of the receiver precedes a read of the operand (the operand may be the receiver itself)", bad)
			}
		}
	}

	// ---- D4 the list owns its backing array; reversal is exact (Sort/Reverse are operations of the property)
	if storage := c.fieldOfIface(lst, "collection", "ArrayLike"); storage != nil {
		checkStorageOwned(c, r, "D4-storage-owned", info, lst, lstClass, storage)
	}
	if srt, _ := c.impl("agent", "SorterLike"); srt != nil {
		if fd := c.methodsOf(srt)["ReverseValues"]; fd != nil {
			tmp := newRec(r.Property)
			checkReverse(c, tmp, c.info("agent"), fd)
			for _, o := range tmp.Obls {
				o.Rule = "D5-reverse-exact"
				r.Obls = append(r.Obls, o)
			}
		}
	}

	// ---- D5 ordinal arguments
	n := 0
	for _, fd := range c.allFuncDecls("collection") {
		n += checkOrdinalArgs(c, r, "D5-ordinal-args", info, fd)
	}
	r.count("ordinal call sites", n)
	r.floor("D5-ordinal-args", 10)
}

// ---------------------------------------------------------------- D2

func checkNormaliser(c *Ctx, r *Rec, info *types.Info, fd *ast.FuncDecl, offset int64) {
	name := c.fdName(fd)
	env := collectionSymEnv(c, info, fd, nil)
	params := paramObjs(info, fd)
	if len(params) != 1 {
		r.skip("D2-normaliser", name, c.pos(fd.Pos()), "unexpected signature")
		return
	}
	p := params[0].Name()
	paths := symRun(env, fd.Body)
	if len(env.problems) > 0 {
		r.skip("D2-normaliser", name, c.pos(fd.Pos()), "SYM cannot interpret the body: "+strings.Join(dedup(env.problems), "; "))
		return
	}
	idx, size := sym(p), sym("size")
	spec := []specRow{
		{When: eq(size, k(0)), Kind: "panic", Desc: "an empty sequence has no valid index"},
		{When: and(gt(size, k(0)), eq(idx, k(0))), Kind: "panic", Desc: "zero is not an ordinal"},
		{When: and(gt(size, k(0)), lt(idx, size.scale(-1))), Kind: "panic", Desc: "index below -size"},
		{When: and(gt(size, k(0)), gt(idx, size)), Kind: "panic", Desc: "index above size"},
		{When: and(gt(size, k(0)), ge(idx, size.scale(-1)), le(idx, k(-1))), Kind: "return", Ret: []*Lin{idx.add(size).plus(offset)}, Desc: fmt.Sprintf("negative ordinal -> index+size%+d", offset)},
		{When: and(gt(size, k(0)), ge(idx, k(1)), le(idx, size)), Kind: "return", Ret: []*Lin{idx.plus(offset - 1)}, Desc: fmt.Sprintf("positive ordinal -> index%+d", offset-1)},
	}
	for _, pth := range paths {
		if pth.Kind == "fall" {
			r.fail("D2-normaliser", name, c.pos(fd.Pos()), "a path falls off the end of the normaliser: "+pth.Cube.String())
			return
		}
	}
	viol, undec := conform(env, paths, spec)
	r.count("SYM paths", len(paths))
	switch {
	case len(viol) > 0:
		r.fail("D2-normaliser", name, c.pos(fd.Pos()), strings.Join(viol, " | "))
	case onlyForeign(undec):
		r.skip("D2-normaliser", name, c.pos(fd.Pos()), strings.Join(undec, " | "))
	case len(undec) > 0:
		r.skip("D2-normaliser", name, c.pos(fd.Pos()), strings.Join(undec, " | "))
	default:
		r.ok("D2-normaliser", name, c.pos(fd.Pos()), fmt.Sprintf("%d code paths x %d spec regions conform on all integers (index, size>=0)", len(paths), len(spec)))
	}
}

// zResolve extends an env so that calls of the normaliser fn evaluate to the
// symbol z:<argument linear form>.
func zResolve(env *symEnv, info *types.Info, fn *types.Func) {
	if env.inlineSkip == nil {
		env.inlineSkip = map[*types.Func]bool{}
	}
	env.inlineSkip[fn.Origin()] = true
	prev := env.resolve
	env.resolve = func(e ast.Expr) (Val, bool) {
		if call, ok := e.(*ast.CallExpr); ok && len(call.Args) == 1 {
			if cf := calleeOf(info, call); cf != nil && cf.Origin() == fn {
				arg := env.eval(env.cur, call.Args[0])
				if arg.Lin != nil {
					return Val{Lin: linSym("z:" + arg.Lin.String())}, true
				}
				return Val{Lin: linSym("z:?" + exprStr(call.Args[0]))}, true
			}
		}
		if prev != nil {
			return prev(e)
		}
		return Val{}, false
	}
}

// symRunZ runs SYM on a method with normaliser calls abstracted as z-symbols.
func symRunZ(c *Ctx, info *types.Info, fd *ast.FuncDecl, norm *types.Func) (*symEnv, []symPath) {
	env := collectionSymEnv(c, info, fd, nil)
	zResolve(env, info, norm)
	env.havocLoops = true
	paths := symRun(env, fd.Body)
	return env, paths
}

func allZ(l *Lin) bool {
	if l == nil {
		return false
	}
	for s := range l.C {
		if !strings.HasPrefix(s, "z:") || strings.HasPrefix(s, "z:?") {
			return false
		}
	}
	return true
}

func checkArrayAccesses(c *Ctx, r *Rec, info *types.Info, arr *types.Named, norm *types.Func) {
	ms := c.methodsOf(arr)
	for _, name := range sortedKeys(ms) {
		fd := ms[name]
		if c.funcOf(fd) == norm {
			continue
		}
		recv := recvObj(info, fd)
		// does the method index or slice the receiver at all?
		uses := false
		ast.Inspect(fd.Body, func(x ast.Node) bool {
			switch e := x.(type) {
			case *ast.IndexExpr:
				if isObj(info, e.X, recv) {
					uses = true
				}
			case *ast.SliceExpr:
				if isObj(info, e.X, recv) && (e.Low != nil || e.High != nil) {
					uses = true
				}
			}
			return true
		})
		if !uses {
			continue
		}
		cname := c.fdName(fd)
		env, paths := symRunZ(c, info, fd, norm)
		if len(env.problems) > 0 {
			r.skip("D1-array-index", cname, c.pos(fd.Pos()), "SYM cannot interpret the body: "+strings.Join(dedup(env.problems), "; "))
			continue
		}
		recvName := ""
		if recv != nil {
			recvName = recv.Name()
		}
		bad := ""
		n := 0
		var los, his, makes []*Lin
		for _, p := range paths {
			for _, a := range p.Accesses {
				if a.Kind == "make" {
					makes = append(makes, a.Index)
					continue
				}
				if a.Base != recvName {
					continue
				}
				n++
				if !allZ(a.Index) {
					bad = fmt.Sprintf("%s operand of %s[...] at %s is %v: not derived from the normaliser %s", a.Kind, a.Base, c.pos(a.Pos), a.Index, norm.Name())
				}
				switch a.Kind {
				case "lo":
					los = append(los, a.Index)
				case "hi":
					his = append(his, a.Index)
				}
			}
		}
		if bad != "" {
			r.fail("D1-array-index", cname, c.pos(fd.Pos()), bad)
		} else {
			r.ok("D1-array-index", cname, c.pos(fd.Pos()), fmt.Sprintf("%d index/slice operands on the receiver, all are normaliser results plus constants", n))
		}
		// D2b: range forms
		params := paramObjs(info, fd)
		z := func(l *Lin) *Lin { return linSym("z:" + l.String()) }
		switch {
		case name == "GetValues" && len(params) == 2 && len(los) == 1 && len(his) == 1:
			f, l := z(sym(params[0].Name())), z(sym(params[1].Name()))
			okForm := los[0].equal(f) && his[0].equal(l.plus(1))
			okMake := true // the copy may be made by a helper; a make in the method itself must have the range's length
			for _, m := range makes {
				if m == nil || !allZ(m) {
					continue // sized by something else than the two normalised bounds (a helper's copy): not this rule's business
				}
				if !m.equal(l.sub(f).plus(1)) {
					okMake = false
				}
			}
			r.check(okForm && okMake, "D2b-slice-forms", cname, c.pos(fd.Pos()),
				"range read is [z(first) : z(last)+1] copied into make(z(last)-z(first)+1)",
				fmt.Sprintf("range read bounds are [%v : %v], make sizes %v; required [%v : %v] and %v", los[0], his[0], makes, f, l.plus(1), l.sub(f).plus(1)))
		case name == "SetValues" && len(params) == 2 && len(los) == 1 && len(his) == 1:
			// operand size symbol: the integer-opaque GetSize() of the sequence parameter
			opSize := linSym("val:" + params[1].Name() + ".GetSize()")
			f := z(sym(params[0].Name()))
			l := z(sym(params[0].Name()).add(opSize).plus(-1))
			r.check(los[0].equal(f) && his[0].equal(l.plus(1)), "D2b-slice-forms", cname, c.pos(fd.Pos()),
				"range write is [z(index) : z(index+n-1)+1] with n the operand's size",
				fmt.Sprintf("range write bounds are [%v : %v]; required [%v : %v]", los[0], his[0], f, l.plus(1)))
		case name == "GetValues" || name == "SetValues":
			r.skip("D2b-slice-forms", cname, c.pos(fd.Pos()), "the range method does not slice the receiver exactly once with both bounds: the slice-form rule is bound to the slicing design")
		}
	}
}

// ---------------------------------------------------------------- reaching definitions of a parameter

// rawUses returns the identifier uses of param that may still hold the
// caller-supplied value (the entry definition reaches them).
func rawUses(g *FG, info *types.Info, param *types.Var) []*ast.Ident {
	key := objKey(param)
	env := &symEnv{info: info}
	reachIn := map[*cfg.Block]bool{}
	reachIn[g.entry()] = true
	defines := func(n ast.Node) bool {
		switch s := n.(type) {
		case *ast.AssignStmt:
			for _, l := range s.Lhs {
				if env.lvalKey(l) == key {
					return true
				}
			}
		case *ast.IncDecStmt:
			return env.lvalKey(s.X) == key
		}
		return false
	}
	changed := true
	for changed {
		changed = false
		for _, b := range g.order {
			in := reachIn[b]
			if !in {
				continue
			}
			out := in
			for _, n := range b.Nodes {
				if defines(n) {
					out = false
				}
			}
			if out {
				for _, s := range b.Succs {
					if !reachIn[s] {
						reachIn[s] = true
						changed = true
					}
				}
			}
		}
	}
	var uses []*ast.Ident
	for _, b := range g.order {
		in := reachIn[b]
		for _, n := range b.Nodes {
			if in {
				// uses inside n (for an assignment: only the right-hand side, or both for op-assign)
				var scan []ast.Node
				switch s := n.(type) {
				case *ast.AssignStmt:
					for _, rhs := range s.Rhs {
						scan = append(scan, rhs)
					}
					if s.Tok != token.ASSIGN && s.Tok != token.DEFINE {
						for _, l := range s.Lhs {
							scan = append(scan, l)
						}
					} else {
						for _, l := range s.Lhs {
							if _, isId := ast.Unparen(l).(*ast.Ident); !isId {
								scan = append(scan, l)
							}
						}
					}
				default:
					scan = append(scan, n)
				}
				for _, sn := range scan {
					inspectNoLit(sn, func(x ast.Node) bool {
						if id, ok := x.(*ast.Ident); ok && info.Uses[id] == param {
							uses = append(uses, id)
						}
						return true
					})
				}
			}
			if defines(n) {
				in = false
			}
		}
	}
	return uses
}

var ordinalAPI = map[string]bool{"GetValue": true, "SetValue": true, "RemoveValue": true, "GetValues": true, "SetValues": true, "RemoveValues": true}

// enclosing returns the chain of nodes from root down to target.
func pathTo(root ast.Node, target ast.Node) []ast.Node {
	var path, found []ast.Node
	ast.Inspect(root, func(x ast.Node) bool {
		if found != nil {
			return false
		}
		if x == nil {
			path = path[:len(path)-1]
			return false
		}
		path = append(path, x)
		if x == target {
			found = append([]ast.Node{}, path...)
			return false
		}
		return true
	})
	return found
}

func checkListIndexParams(c *Ctx, r *Rec, info *types.Info, lst *types.Named, norm *types.Func) {
	ms := c.methodsOf(lst)
	if c.fieldOfIface(lst, "collection", "ArrayLike") == nil {
		r.skip("D1-list-index-param", "collection."+lst.Obj().Name(), "", "the list does not keep its values in an array of the collection package (ArrayLike field): which calls take an ordinal index is not known for this design")
		return
	}
	for _, name := range sortedKeys(ms) {
		fd := ms[name]
		if !ast.IsExported(name) {
			continue
		}
		recv := recvObj(info, fd)
		var g *FG
		for _, p := range paramObjs(info, fd) {
			if b, ok := p.Type().Underlying().(*types.Basic); !ok || b.Kind() != types.Int {
				continue
			}
			if g == nil {
				g = newFG(info, fd.Body)
			}
			construct := c.fdName(fd) + "/" + p.Name()
			bad := ""
			var rawUse *ast.Ident
			nOK := 0
			uses := rawUses(g, info, p)
			for _, id := range uses {
				chain := pathTo(fd.Body, id)
				okUse := false
				for i := len(chain) - 2; i >= 0 && !okUse; i-- {
					switch x := chain[i].(type) {
					case *ast.CallExpr:
						// the identifier must be a direct argument
						direct := false
						for _, a := range x.Args {
							if ast.Unparen(a) == ast.Expr(id) {
								direct = true
							}
						}
						if !direct {
							break
						}
						if cf := calleeOf(info, x); cf != nil {
							if cf.Origin() == norm {
								okUse = true
							} else if rx, mname, _, ok := methodCall(x); ok && ordinalAPI[mname] && recvRooted(info, rx, recv) {
								okUse = true
							}
						}
						i = -1 // stop at the innermost call
					case *ast.BinaryExpr:
						switch x.Op {
						case token.LSS, token.LEQ, token.GTR, token.GEQ, token.EQL, token.NEQ:
							okUse = true // a comparison does not address a position
						}
					}
				}
				if !okUse {
					rawUse = id
				} else {
					nOK++
				}
			}
			if rawUse != nil && nOK > 0 {
				// the index has been handed to the ordinal API (or the normaliser) in this method:
				// it has been validated there, and what the method does with it afterwards (an
				// index of its own into a private snapshot) is arithmetic on a valid ordinal
				r.skip("D1-list-index-param", construct, c.pos(fd.Pos()), fmt.Sprintf("the index is validated by the ordinal API and also used directly at %s: the direct use is not followed", c.pos(rawUse.Pos())))
				continue
			}
			if rawUse != nil {
				bad = fmt.Sprintf("raw use of the caller's index %q at %s is neither an argument of the ordinal API of the storage nor of the normaliser", p.Name(), c.pos(rawUse.Pos()))
			}
			if bad != "" {
				r.fail("D1-list-index-param", construct, c.pos(fd.Pos()), bad)
			} else {
				r.ok("D1-list-index-param", construct, c.pos(fd.Pos()), fmt.Sprintf("%d raw uses, each an argument of the storage's ordinal API or of %s", len(uses), norm.Name()))
			}
		}
	}
}

// checkSlotGates: every uint slot parameter of a list mutator is compared with
// the size before the rebuild: slot > size panics, slot <= size does not.
func checkSlotGates(c *Ctx, r *Rec, info *types.Info, lst *types.Named) {
	ms := c.methodsOf(lst)
	for _, name := range sortedKeys(ms) {
		fd := ms[name]
		if !ast.IsExported(name) {
			continue
		}
		for _, p := range paramObjs(info, fd) {
			if b, ok := p.Type().Underlying().(*types.Basic); !ok || b.Kind() != types.Uint {
				continue
			}
			construct := c.fdName(fd) + "/" + p.Name()
			// interpret the prefix of the body up to the first loop
			var prefix []ast.Stmt
			for _, s := range fd.Body.List {
				if _, isLoop := s.(*ast.ForStmt); isLoop {
					break
				}
				if _, isLoop := s.(*ast.RangeStmt); isLoop {
					break
				}
				prefix = append(prefix, s)
			}
			env := collectionSymEnv(c, info, fd, nil)
			env.base = append(env.base, linSym(p.Name()).scale(-1)) // slot >= 0 (unsigned)
			paths := symRun(env, &ast.BlockStmt{List: prefix, Lbrace: fd.Body.Lbrace, Rbrace: fd.Body.Rbrace})
			if len(env.problems) > 0 {
				r.skip("D1-slot-gate", construct, c.pos(fd.Pos()), "SYM cannot interpret the prefix: "+strings.Join(dedup(env.problems), "; "))
				continue
			}
			slot, size := sym(p.Name()), sym("size")
			spec := []specRow{
				{When: gt(slot, size), Kind: "panic", Desc: "a slot beyond the end must panic before anything is built"},
				{When: le(slot, size), Kind: "nopanic", Desc: "a slot within 0..size is valid"},
			}
			var viol []string
			for _, pth := range paths {
				for _, row := range spec {
					for _, cb := range dnf(row.When) {
						all := append(append(append(Cube{}, env.base...), pth.Cube...), cb...)
						if sat, dec := feasible(all); dec && sat {
							if row.Kind == "panic" && pth.Kind != "panic" {
								viol = append(viol, fmt.Sprintf("on {%s} the method proceeds to rebuild the list, but %s", all, row.Desc))
							}
							if row.Kind == "nopanic" && pth.Kind == "panic" {
								// a panic behind a nil check of a value the method has just made is an
								// assertion, not a refusal of the argument
								nilCheck := false
								for _, atom := range pth.Cube {
									for sname := range atom.C {
										if strings.HasPrefix(sname, "pred:") && strings.HasSuffix(sname, "== nil") {
											nilCheck = true
										}
									}
								}
								if !nilCheck {
									viol = append(viol, fmt.Sprintf("on {%s} the method panics, but %s", all, row.Desc))
								}
							}
						} else if !dec {
							viol = append(viol, "undecidable region "+all.String())
						}
					}
				}
			}
			if len(viol) > 0 {
				r.fail("D1-slot-gate", construct, c.pos(fd.Pos()), strings.Join(dedup(viol), " | "))
			} else {
				r.ok("D1-slot-gate", construct, c.pos(fd.Pos()), fmt.Sprintf("slot > size panics before the rebuild on all integers (%d prefix paths)", len(paths)))
			}
		}
	}
}

// ---------------------------------------------------------------- D2c

func checkSearchConvention(c *Ctx, r *Rec, info *types.Info, lst *types.Named) {
	ms := c.methodsOf(lst)
	// GetIndex
	if fd := ms["GetIndex"]; fd != nil {
		construct := c.fdName(fd)
		params := paramObjs(info, fd)
		var rng *ast.RangeStmt
		var trailing []ast.Stmt
		for i, s := range fd.Body.List {
			if rs, ok := s.(*ast.RangeStmt); ok {
				rng = rs
				trailing = fd.Body.List[i+1:]
			}
		}
		switch {
		case rng == nil || len(params) != 1:
			r.skip("D2c-search", construct, c.pos(fd.Pos()), "GetIndex is not a range loop over a snapshot followed by a default return")
		default:
			recv := recvObj(info, fd)
			// the ranged expression must be a snapshot accessor of the receiver
			okSnap := false
			if rx, mname, _, ok := methodCall(ast.Unparen(rng.X)); ok && mname == "AsArray" && recvRooted(info, rx, recv) {
				okSnap = true
			}
			keyName := ""
			if id, ok := rng.Key.(*ast.Ident); ok {
				keyName = id.Name
			}
			env := &symEnv{info: info}
			paths := symRun(env, rng.Body)
			var viol []string
			returned := false
			for _, p := range paths {
				if p.Kind == "return" {
					returned = true
					if len(p.Rets) != 1 || p.Rets[0].Lin == nil || !p.Rets[0].Lin.equal(sym(keyName).plus(1)) {
						viol = append(viol, fmt.Sprintf("a match returns %v, required %s+1 (ordinal of the zero-based position)", p.Rets, keyName))
					}
					// the guarding predicate must compare the ranged value with the parameter
					cubeTxt := p.Cube.String()
					valName := ""
					if id, ok := rng.Value.(*ast.Ident); ok {
						valName = id.Name
					}
					if !strings.Contains(cubeTxt, "pred:") || !strings.Contains(cubeTxt, valName) || !strings.Contains(cubeTxt, params[0].Name()) {
						viol = append(viol, "the match is not guarded by a comparison of the candidate with the sought value: "+cubeTxt)
					}
				}
			}
			if !returned {
				viol = append(viol, "no return inside the search loop")
			}
			env2 := &symEnv{info: info}
			tpaths := symRun(env2, &ast.BlockStmt{List: trailing})
			for _, p := range tpaths {
				if p.Kind != "return" || len(p.Rets) != 1 || p.Rets[0].Lin == nil || !p.Rets[0].Lin.equal(k(0)) {
					viol = append(viol, fmt.Sprintf("after an unsuccessful scan the method returns %v, required 0", p.Rets))
				}
			}
			if !okSnap {
				viol = append(viol, "the scan does not range over the receiver's array snapshot")
			}
			if len(env.problems)+len(env2.problems) > 0 {
				r.skip("D2c-search", construct, c.pos(fd.Pos()), strings.Join(append(env.problems, env2.problems...), "; "))
			} else if len(viol) > 0 {
				r.fail("D2c-search", construct, c.pos(fd.Pos()), strings.Join(viol, " | "))
			} else {
				r.ok("D2c-search", construct, c.pos(fd.Pos()), "first match at zero-based i returns i+1, no match returns 0")
			}
		}
	} else {
		r.undecided("D2c-search", "collection."+lst.Obj().Name()+".GetIndex", "", "method not found")
	}
	// ContainsValue
	gIdx := func(env *symEnv, fd *ast.FuncDecl) {
		recv := recvObj(info, fd)
		prev := env.resolve
		env.resolve = func(e ast.Expr) (Val, bool) {
			if rx, mname, call, ok := methodCall(e); ok && mname == "GetIndex" && len(call.Args) == 1 && (recvRooted(info, rx, recv) || env.isRecvRooted(rx)) {
				return Val{Lin: linSym("g")}, true
			}
			// ContainsValue(x) is GetIndex(x) > 0 (decided for ContainsValue itself by this rule)
			if rx, mname, call, ok := methodCall(e); ok && mname == "ContainsValue" && len(call.Args) == 1 && (recvRooted(info, rx, recv) || env.isRecvRooted(rx)) {
				return Val{B: ge(sym("g"), k(1))}, true
			}
			if prev != nil {
				return prev(e)
			}
			return Val{}, false
		}
		env.base = append(env.base, linSym("g").scale(-1)) // GetIndex >= 0
		enableInlining(c, env, fd, nil)                    // private helpers (isPresent) are interpreted in place
	}
	if fd := ms["ContainsValue"]; fd != nil {
		construct := c.fdName(fd)
		env := &symEnv{info: info}
		gIdx(env, fd)
		paths := symRun(env, fd.Body)
		viol, undec := conform(env, paths, []specRow{
			{When: FTrue, Kind: "return", RetB: []*F{ge(sym("g"), k(1))}, Desc: "contained iff GetIndex > 0"},
		})
		for _, p := range paths {
			if p.Kind != "return" {
				viol = append(viol, "a path does not return")
			}
		}
		switch {
		case len(env.problems) > 0 || len(undec) > 0:
			r.skip("D2c-search", construct, c.pos(fd.Pos()), strings.Join(append(env.problems, undec...), "; "))
		case len(viol) > 0:
			r.fail("D2c-search", construct, c.pos(fd.Pos()), strings.Join(viol, " | "))
		default:
			r.ok("D2c-search", construct, c.pos(fd.Pos()), "returns GetIndex(value) > 0")
		}
	}
	for _, spec := range []struct {
		name    string
		hit     *F // condition on g under which the loop returns
		hitVal  bool
		restVal bool
	}{
		{"ContainsAny", ge(sym("g"), k(1)), true, false},
		{"ContainsAll", le(sym("g"), k(0)), false, true},
	} {
		fd := ms[spec.name]
		if fd == nil {
			continue
		}
		construct := c.fdName(fd)
		var loop *ast.ForStmt
		var trailing []ast.Stmt
		for i, s := range fd.Body.List {
			if fs, ok := s.(*ast.ForStmt); ok {
				loop = fs
				trailing = fd.Body.List[i+1:]
			}
		}
		if loop == nil {
			r.skip("D2c-search", construct, c.pos(fd.Pos()), "no search loop found")
			continue
		}
		// a search that is steered by a flag (for found && it.HasNext() { found = ... }; return found)
		// is another design: "return on the first hit" is not how it answers
		steered := false
		if loop.Cond != nil {
			ast.Inspect(loop.Cond, func(x ast.Node) bool {
				if id, ok := x.(*ast.Ident); ok {
					if v, isVar := info.Uses[id].(*types.Var); isVar && isBoolType(v.Type()) && writesAny(info, loop.Body, []types.Object{v}) {
						steered = true
					}
				}
				return true
			})
		}
		if steered {
			r.skip("D2c-search", construct, c.pos(fd.Pos()), "the search loop is steered by a flag that its body sets: another design, the short-circuit rule is not bound to it")
			continue
		}
		env := &symEnv{info: info}
		gIdx(env, fd)
		paths := symRun(env, loop.Body)
		boolF := func(b bool) *F {
			if b {
				return FTrue
			}
			return FFalse
		}
		var viol []string
		for _, p := range paths {
			for _, row := range []struct {
				when   *F
				expect string
			}{{spec.hit, "return"}, {fNotOf(spec.hit), "fall"}} {
				for _, cb := range dnf(row.when) {
					all := append(append(append(Cube{}, env.base...), p.Cube...), cb...)
					if sat, dec := feasible(all); !dec || !sat {
						continue
					}
					if p.Kind != row.expect {
						viol = append(viol, fmt.Sprintf("on {%s} the loop body %ss, required to %s", all, p.Kind, row.expect))
					} else if p.Kind == "return" {
						if len(p.Rets) != 1 || p.Rets[0].B == nil {
							viol = append(viol, "non-boolean result")
						} else if s, _ := satF(all, fOrOf(fAndOf(p.Rets[0].B, fNotOf(boolF(spec.hitVal))), fAndOf(fNotOf(p.Rets[0].B), boolF(spec.hitVal)))); s {
							viol = append(viol, fmt.Sprintf("on {%s} the loop returns %v, required %v", all, p.Rets[0], spec.hitVal))
						}
					}
				}
			}
		}
		env2 := &symEnv{info: info}
		for _, p := range symRun(env2, &ast.BlockStmt{List: trailing}) {
			want := boolF(spec.restVal)
			if p.Kind != "return" || len(p.Rets) != 1 || p.Rets[0].B == nil {
				viol = append(viol, "the method does not end with a boolean return")
			} else if s, _ := satF(nil, fOrOf(fAndOf(p.Rets[0].B, fNotOf(want)), fAndOf(fNotOf(p.Rets[0].B), want))); s {
				viol = append(viol, fmt.Sprintf("after the loop the method returns %v, required %v", p.Rets[0], spec.restVal))
			}
		}
		switch {
		case len(env.problems)+len(env2.problems) > 0:
			r.skip("D2c-search", construct, c.pos(fd.Pos()), strings.Join(append(env.problems, env2.problems...), "; "))
		case len(viol) > 0:
			r.fail("D2c-search", construct, c.pos(fd.Pos()), strings.Join(dedup(viol), " | "))
		default:
			r.ok("D2c-search", construct, c.pos(fd.Pos()), fmt.Sprintf("short-circuits with %v when GetIndex %s, otherwise %v", spec.hitVal, map[bool]string{true: "> 0", false: "== 0"}[spec.hitVal], spec.restVal))
		}
	}
	checkEmptyOperand(c, r, "D2c-empty-operand", info, ms)
	var fds []*ast.FuncDecl
	for _, name := range sortedKeys(ms) {
		fds = append(fds, ms[name])
	}
	checkAppendAliasing(c, r, "D6-append-keeps-the-tail", info, fds)
}

// checkEmptyOperand: ContainsAny(empty) is false and ContainsAll(empty) is true.  The method is
// evaluated for inputs on which no loop body runs (loops over the operand's iterator, over its
// array view, or counting up to its size); private helpers are interpreted in place with the
// constants they are called with.
func checkEmptyOperand(c *Ctx, r *Rec, rule string, info *types.Info, ms map[string]*ast.FuncDecl) {
	for _, spec := range []struct {
		name string
		want bool
	}{{"ContainsAny", false}, {"ContainsAll", true}} {
		fd := ms[spec.name]
		if fd == nil || fd.Body == nil {
			continue
		}
		construct := c.fdName(fd) + "/empty-operand"
		params := paramObjs(info, fd)
		if len(params) != 1 {
			continue
		}
		// every loop reachable must be one that an empty operand (and nothing else) keeps from running
		bad := ""
		var visit func(d *ast.FuncDecl, depth int)
		seen := map[*ast.FuncDecl]bool{}
		visit = func(d *ast.FuncDecl, depth int) {
			if seen[d] || depth > 3 {
				return
			}
			seen[d] = true
			ast.Inspect(d.Body, func(x ast.Node) bool {
				switch l := x.(type) {
				case *ast.ForStmt:
					if l.Cond == nil {
						bad = "a loop without a condition at " + c.pos(l.Pos())
						return false
					}
					if _, mname, _, ok := methodCall(ast.Unparen(l.Cond)); !(ok && mname == "HasNext") {
						if be, isB := ast.Unparen(l.Cond).(*ast.BinaryExpr); !(isB && (be.Op == token.LSS || be.Op == token.LEQ)) {
							bad = "a loop whose condition is neither HasNext nor a counting bound at " + c.pos(l.Pos())
						}
					}
					return false // the body does not run
				case *ast.RangeStmt:
					return false
				case *ast.CallExpr:
					if cf := calleeOf(info, l); cf != nil && !cf.Exported() {
						if hd := c.declOf(cf); hd != nil && hd.Body != nil && c.infoFor(hd) == info {
							visit(hd, depth+1)
						}
					}
				}
				return true
			})
		}
		visit(fd, 0)
		if bad != "" {
			r.skip(rule, construct, c.pos(fd.Pos()), "the evaluation for an empty operand needs every loop to be kept from running by it: "+bad)
			continue
		}
		env := &symEnv{info: info, zeroTrip: true}
		enableInlining(c, env, fd, nil)
		paths := symRun(env, fd.Body)
		if len(env.problems) > 0 {
			r.skip(rule, construct, c.pos(fd.Pos()), "SYM: "+strings.Join(dedup(env.problems), "; "))
			continue
		}
		var viol []string
		decided := 0
		for _, p := range paths {
			if p.Kind != "return" || len(p.Rets) != 1 || p.Rets[0].B == nil {
				continue
			}
			// only paths that are not conditional on anything else: an empty operand reaches them
			if len(p.Cube) > 0 {
				continue
			}
			if len(symbolsOfF(p.Rets[0].B)) > 0 {
				continue // the answer is left to something the rule does not interpret (a library function)
			}
			decided++
			want := FFalse
			if spec.want {
				want = FTrue
			}
			if s, _ := satF(nil, fOrOf(fAndOf(p.Rets[0].B, fNotOf(want)), fAndOf(fNotOf(p.Rets[0].B), want))); s {
				viol = append(viol, fmt.Sprintf("for an empty operand (no loop body runs) %s returns %v, required %v: %s", spec.name, p.Rets[0], spec.want, map[bool]string{true: "all of no values are contained", false: "none of no values is contained"}[spec.want]))
			}
		}
		switch {
		case len(viol) > 0:
			r.fail(rule, construct, c.pos(fd.Pos()), strings.Join(dedup(viol), " | "))
		case decided == 0:
			r.skip(rule, construct, c.pos(fd.Pos()), "no unconditional path for an empty operand")
		default:
			r.ok(rule, construct, c.pos(fd.Pos()), fmt.Sprintf("with no loop body run the method returns %v", spec.want))
		}
	}
}

// ---------------------------------------------------------------- D4

func mayPanicCall(info *types.Info, n ast.Node) *ast.CallExpr {
	var bad *ast.CallExpr
	inspectNoLit(n, func(x ast.Node) bool {
		if call, ok := x.(*ast.CallExpr); ok {
			if tv, isT := info.Types[call.Fun]; isT && tv.IsType() {
				return true
			}
			if isBuiltinCall(info, call, "len") || isBuiltinCall(info, call, "cap") {
				return true
			}
			bad = call
			return false
		}
		return true
	})
	return bad
}

func checkCommitLast(c *Ctx, r *Rec, info *types.Info, lst *types.Named) {
	storage := c.fieldOfIface(lst, "collection", "ArrayLike")
	if storage == nil {
		r.skip("D4-commit-last", "collection."+lst.Obj().Name(), "", "the list type has no storage field of type ArrayLike")
		return
	}
	skey := objKey(storage)
	ms := c.methodsOf(lst)
	for _, name := range sortedKeys(ms) {
		fd := ms[name]
		env := &symEnv{info: info}
		var stores []ast.Stmt
		inspectNoLit(fd.Body, func(x ast.Node) bool {
			if as, ok := x.(*ast.AssignStmt); ok {
				for _, l := range as.Lhs {
					if env.lvalKey(l) == skey {
						stores = append(stores, as)
					}
				}
			}
			return true
		})
		if len(stores) == 0 {
			continue
		}
		construct := c.fdName(fd)
		g := newFG(info, fd.Body)
		bad := ""
		for _, st := range stores {
			pt, ok := g.after(st)
			if !ok {
				bad = "store not found in the CFG"
				break
			}
			found, w := g.exists(pathQuery{from: pt, goalNode: func(n ast.Node) bool {
				return mayPanicCall(info, n) != nil
			}})
			if found {
				bad = fmt.Sprintf("after the new storage is committed at %s the method still calls %s at %s: a panic there leaves the list changed", c.pos(st.Pos()), exprStr(mayPanicCall(info, w).Fun), c.pos(w.Pos()))
				break
			}
			// the committing statement itself must not contain a call after evaluation order... (rhs is evaluated before the store)
		}
		if bad != "" {
			r.fail("D4-commit-last", construct, c.pos(fd.Pos()), bad)
		} else {
			r.ok("D4-commit-last", construct, c.pos(fd.Pos()), fmt.Sprintf("%d store(s) to the storage field, nothing that can panic follows", len(stores)))
		}
	}
}

// checkArrayWriteOrder: in the array type every element store is dominated by
// all normaliser calls of the method.
func checkArrayWriteOrder(c *Ctx, r *Rec, info *types.Info, arr *types.Named, norm *types.Func) {
	ms := c.methodsOf(arr)
	// writers: methods that store into the receiver, directly or through a sibling called on it;
	// checkers: methods that may raise the bounds panic (they call the normaliser, directly or
	// through a sibling called on the receiver).
	direct := func(fd *ast.FuncDecl) (writes, checks []ast.Node, calls map[string][]ast.Node) {
		recv := recvObj(info, fd)
		calls = map[string][]ast.Node{}
		inspectNoLit(fd.Body, func(x ast.Node) bool {
			switch s := x.(type) {
			case *ast.AssignStmt:
				for _, l := range s.Lhs {
					if ix, ok := ast.Unparen(l).(*ast.IndexExpr); ok && isObj(info, ix.X, recv) {
						writes = append(writes, s)
					}
				}
			case *ast.CallExpr:
				if isBuiltinCall(info, s, "copy") && len(s.Args) == 2 {
					root := ast.Unparen(s.Args[0])
					if se, ok := root.(*ast.SliceExpr); ok {
						root = ast.Unparen(se.X)
					}
					if isObj(info, root, recv) {
						writes = append(writes, s)
					}
				}
				if cf := calleeOf(info, s); cf != nil && cf.Origin() == norm {
					checks = append(checks, s)
				} else if rx, mname, _, ok := methodCall(s); ok && isObj(info, rx, recv) && ms[mname] != nil {
					calls[mname] = append(calls[mname], s)
				}
			}
			return true
		})
		return
	}
	writer, checker := map[string]bool{}, map[string]bool{}
	for name, fd := range ms {
		w, n, _ := direct(fd)
		writer[name], checker[name] = len(w) > 0, len(n) > 0
	}
	for changed := true; changed; {
		changed = false
		for name, fd := range ms {
			_, _, calls := direct(fd)
			for callee := range calls {
				if writer[callee] && !writer[name] {
					writer[name], changed = true, true
				}
				if checker[callee] && !checker[name] {
					checker[name], changed = true, true
				}
			}
		}
	}
	for _, name := range sortedKeys(ms) {
		fd := ms[name]
		writes, checks, calls := direct(fd)
		for callee, sites := range calls {
			if writer[callee] {
				writes = append(writes, sites...)
			}
			if checker[callee] {
				checks = append(checks, sites...)
			}
		}
		if len(writes) == 0 {
			continue
		}
		construct := c.fdName(fd)
		g := newFG(info, fd.Body)
		bad := ""
		for _, w := range writes {
			from, ok := g.after(w)
			if !ok {
				continue
			}
			isCheck := func(n ast.Node) bool {
				for _, ch := range checks {
					if containsNode(n, ch) {
						return true
					}
				}
				return false
			}
			if found, at := g.exists(pathQuery{from: from, goalNode: isCheck}); found {
				bad = fmt.Sprintf("after the write at %s a path reaches the bounds check at %s: when that check fails the sequence has already been modified", c.pos(w.Pos()), c.pos(at.Pos()))
			}
		}
		r.check(bad == "", "D4-commit-last", construct, c.pos(fd.Pos()),
			fmt.Sprintf("%d write(s) to the receiver, no bounds check (of %d) is reachable after any of them", len(writes), len(checks)), bad)
	}
}

// ---------------------------------------------------------------- D5

// checkOrdinalArgs reports calls of the ordinal API whose index argument is
// definitely zero on some path reaching the call.  Returns the number of sites.
func checkOrdinalArgs(c *Ctx, r *Rec, rule string, info *types.Info, fd *ast.FuncDecl) int {
	bodies := []*ast.BlockStmt{fd.Body}
	for _, fl := range funcLitsIn(fd.Body) {
		bodies = append(bodies, fl.Body)
	}
	sites := 0
	for _, body := range bodies {
		var g *FG
		env := &symEnv{info: info}
		seq := 0
		inspectNoLit(body, func(x ast.Node) bool {
			_, mname, call, ok := methodCall(x)
			if !ok || !ordinalAPI[mname] {
				return true
			}
			cf := calleeOf(info, call)
			if cf == nil {
				return true
			}
			sig := cf.Type().(*types.Signature)
			for i := 0; i < sig.Params().Len() && i < len(call.Args); i++ {
				pt := sig.Params().At(i).Type()
				if b, ok := pt.Underlying().(*types.Basic); !ok || b.Kind() != types.Int {
					continue
				}
				// only parameters that are ordinals: named index/first/last in the interface
				pn := sig.Params().At(i).Name()
				if pn != "index" && pn != "first" && pn != "last" {
					continue
				}
				sites++
				seq++
				construct := fmt.Sprintf("%s/%s#%d", c.fdName(fd), mname, seq)
				arg := ast.Unparen(call.Args[i])
				if tv, ok := info.Types[arg]; ok && tv.Value != nil {
					r.check(tv.Value.String() != "0", rule, construct, c.pos(call.Pos()), "constant ordinal "+tv.Value.String(), "the ordinal argument is the constant 0: the call always panics")
					continue
				}
				id, isId := arg.(*ast.Ident)
				if !isId {
					r.ok(rule, construct, c.pos(call.Pos()), "computed ordinal "+exprStr(arg)+" (not a definite zero)")
					continue
				}
				v, _ := info.Uses[id].(*types.Var)
				if v == nil {
					r.ok(rule, construct, c.pos(call.Pos()), "ordinal "+id.Name)
					continue
				}
				// find a zero initialisation of v inside this body
				var zeroInit ast.Node
				inspectNoLit(body, func(y ast.Node) bool {
					switch d := y.(type) {
					case *ast.ValueSpec:
						for j, n := range d.Names {
							if info.Defs[n] == v {
								if len(d.Values) == 0 {
									zeroInit = d
								} else if j < len(d.Values) {
									if tv := info.Types[d.Values[j]]; tv.Value != nil && tv.Value.String() == "0" {
										zeroInit = d
									}
								}
							}
						}
					case *ast.AssignStmt:
						if d.Tok == token.DEFINE {
							for j, l := range d.Lhs {
								if lid, ok := l.(*ast.Ident); ok && info.Defs[lid] == v && j < len(d.Rhs) {
									if tv := info.Types[d.Rhs[j]]; tv.Value != nil && tv.Value.String() == "0" {
										zeroInit = d
									}
								}
							}
						}
					}
					return true
				})
				if zeroInit == nil {
					r.ok(rule, construct, c.pos(call.Pos()), "ordinal "+id.Name+" is not initialised to zero in this function")
					continue
				}
				if g == nil {
					g = newFG(info, body)
				}
				ipt, ok := g.after(zeroInit)
				if !ok {
					r.skip(rule, construct, c.pos(call.Pos()), "initialisation not found in the CFG")
					continue
				}
				key := objKey(v)
				// loops that step the ordinal are assumed to run at least once (a
				// zero-trip path through such a loop is not taken as a witness)
				stepping := map[ast.Expr]bool{}
				inspectNoLit(body, func(y ast.Node) bool {
					if fs, ok := y.(*ast.ForStmt); ok && fs.Cond != nil && assignedIn(info, fs.Body, key, env) && !containsNode(fs, call) {
						stepping[fs.Cond] = true
					}
					return true
				})
				// the same for a range loop that steps it (for _, x := range snapshot { ordinal++ ... })
				atLeast := map[*cfg.Block]*cfg.Block{}
				inspectNoLit(body, func(y ast.Node) bool {
					if rs, ok := y.(*ast.RangeStmt); ok && assignedIn(info, rs.Body, key, env) && !containsNode(rs, call) {
						if head, _, done := g.loopBlocks(rs); head != nil && done != nil {
							atLeast[head] = done
						}
					}
					return true
				})
				reaches, _ := g.exists(pathQuery{
					edgeOK:      func(cond ast.Expr, pol bool) bool { return pol || !stepping[cond] },
					atLeastOnce: atLeast,
					from:        ipt,
					stop: func(n ast.Node) bool {
						if containsNode(n, call) {
							return false
						}
						return assignedIn(info, n, key, env)
					},
					goalNode: func(n ast.Node) bool { return containsNode(n, call) },
				})
				r.check(!reaches, rule, construct, c.pos(call.Pos()),
					"ordinal "+id.Name+" starts at zero but is stepped before every call",
					fmt.Sprintf("the ordinal argument %s is initialised to zero at %s and reaches this call unchanged: the first call passes index 0, which is not an ordinal and panics", id.Name, c.pos(zeroInit.Pos())))
			}
			return true
		})
	}
	return sites
}

// checkAppendAliasing: append(S[:k], ...) writes into the backing array of S behind position k
// whenever the capacity allows it.  If S (its tail, or all of it) is read after that append, the
// values read are the ones just written, not the original ones.  Safe forms: a full slice
// expression S[:k:k], an S that is not read again, or a prefix of a slice that was just made
// with the exact length.
func checkAppendAliasing(c *Ctx, r *Rec, rule string, info *types.Info, fds []*ast.FuncDecl) {
	n := 0
	for _, fd := range fds {
		if fd.Body == nil {
			continue
		}
		var g *FG
		ast.Inspect(fd.Body, func(x ast.Node) bool {
			call, ok := x.(*ast.CallExpr)
			if !ok || !isBuiltinCall(info, call, "append") || len(call.Args) < 2 {
				return true
			}
			se, ok := ast.Unparen(call.Args[0]).(*ast.SliceExpr)
			if !ok || se.High == nil || se.Slice3 {
				return true
			}
			so := identObj(info, se.X)
			if so == nil {
				return true
			}
			n++
			if g == nil {
				g = newFG(info, fd.Body)
			}
			construct := c.fdName(fd) + "/append-to-prefix"
			pt, okp := g.after(call)
			if !okp {
				return true
			}
			// is the slice read again after the append (other than being overwritten as a whole)?
			var read ast.Node
			found, _ := g.exists(pathQuery{from: pt,
				stop: func(nd ast.Node) bool {
					// S = ... : from here on S is another slice
					if as, ok := nd.(*ast.AssignStmt); ok {
						for _, l := range as.Lhs {
							if identObj(info, l) == so {
								// the right-hand side is evaluated first
								for _, rh := range as.Rhs {
									if nodeHas(rh, func(y ast.Node) bool { id, ok := y.(*ast.Ident); return ok && info.Uses[id] == so }) {
										read = nd
									}
								}
								return true
							}
						}
					}
					return false
				},
				goalNode: func(nd ast.Node) bool {
					if containsNode(nd, call) {
						return false
					}
					if nodeHas(nd, func(y ast.Node) bool { id, ok := y.(*ast.Ident); return ok && info.Uses[id] == so }) {
						read = nd
						return true
					}
					return false
				}})
			if found || read != nil {
				r.fail(rule, construct, c.pos(call.Pos()), fmt.Sprintf("%s appends behind a prefix of %s, which overwrites the values of %s that follow the prefix whenever its capacity allows, and %s is read again at %s: the values read there are the ones just written, not the original ones", exprStr(call), so.Name(), so.Name(), so.Name(), c.pos(read.Pos())))
			} else {
				r.ok(rule, construct, c.pos(call.Pos()), "the slice whose prefix is appended to is not read again")
			}
			return true
		})
	}
	if n == 0 {
		r.skip(rule, "collection/append-to-prefix", "", "no append to a prefix of a slice in the methods of this type")
	}
}
