package main

// The reading methods of a collection write nothing.  A method whose name says that it answers a
// question (Get..., Is..., Contains..., As..., String) and that assigns a field of its receiver -
// directly or through the private methods it calls - turns every reader into a writer: two
// go-routines that only read one quiescent collection race with each other, and an answer can be
// paired with what another reader left behind (a memo of the last lookup, say).

import (
	"fmt"
	"go/ast"
	"sort"
	"strings"

	"go/types"
)

func isReaderName(name string) bool {
	for _, p := range []string{"Get", "Is", "Contains", "As", "Has"} {
		if strings.HasPrefix(name, p) {
			return true
		}
	}
	return name == "String"
}

func checkReadersWriteNothing(c *Ctx, r *Rec, rule string, n *types.Named) {
	if n == nil || structOf(n) == nil {
		return
	}
	role := c.roleOf(n.Obj().Pkg())
	ms := c.methodsOf(n)
	cg := c.sameTypeCallGraph(n)
	fw := c.fieldWrites()
	// field writes by method of this type
	writes := map[string][]fieldWrite{}
	for _, f := range flatFields(n) {
		if isSyncType(f.Type()) {
			continue
		}
		for _, w := range fw[f.Origin()] {
			if w.In == nil || !(strings.HasPrefix(w.How, "assigned") || strings.HasPrefix(w.How, "stepped")) {
				continue
			}
			for name, fd := range ms {
				if fd == w.In {
					writes[name] = append(writes[name], w)
				}
			}
		}
	}
	for _, name := range sortedKeys(ms) {
		if !ast.IsExported(name) || !isReaderName(name) || ms[name].Body == nil {
			continue
		}
		// the reader and the unexported methods it reaches
		reach := map[string]bool{name: true}
		for work := []string{name}; len(work) > 0; {
			cur := work[0]
			work = work[1:]
			var callees []string
			for callee := range cg[cur] {
				callees = append(callees, callee)
			}
			sort.Strings(callees)
			for _, callee := range callees {
				if !reach[callee] && !ast.IsExported(callee) {
					reach[callee] = true
					work = append(work, callee)
				}
			}
		}
		bad := ""
		var names []string
		for m := range reach {
			names = append(names, m)
		}
		sort.Strings(names)
		for _, m := range names {
			for _, w := range writes[m] {
				if bad == "" {
					via := ""
					if m != name {
						via = " (through " + m + ")"
					}
					bad = fmt.Sprintf("the reading method %s%s has the field %s %s at %s: readers of one collection now write shared state, so two go-routines that only read race with each other and an answer can be built from what another reader left behind", name, via, w.Field.Name(), w.How, c.pos(w.Pos))
				}
			}
		}
		r.check(bad == "", rule, role+"."+n.Obj().Name()+"."+name, c.pos(ms[name].Pos()), "assigns no field of the receiver, directly or through private methods", bad)
	}
}
