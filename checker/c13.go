package main

// C13 — Stack is LIFO and never holds more values than its capacity.

import (
	"fmt"
	"go/ast"
	"go/token"
	"go/types"
	"strings"
)

func init() {
	register(&propInfo{
		ID:      "C13",
		Engines: "SYM (octagon tables over (size, capacity, n)), PATH, call-site tables",
		Decided: "D1 every constructor that builds the stack object gives it a capacity that is >= the number of initial values on all integers; " +
			"D2 AddValue panics exactly when size = capacity and otherwise inserts, RemoveTop panics exactly when empty and otherwise removes; " +
			"D3 both ends are the same end: insertion at slot 0 of the value parameter, removal of index 1, views delegate to the storage unchanged; " +
			"D4 the storage is mutated only by AddValue->InsertValue, RemoveTop->RemoveValue and RemoveAll->RemoveAll." +
			" Also: the storage of a new stack is made by the constructor, never adopted from an argument; no function creates a stack and pushes more values than the capacity it gave it." +
			" Round 7: RemoveAll clears on every path that is not selected by an emptiness test (conditions are resolved through tuple and named results of helpers)." +
			" Rounds 8-9: readers assign no field; a capacity is not compared after conversion to a signed integer; a slice made with a length is not only appended to.",
		NotDecided: "LIFO order over histories (rests on the list's element placement, C01 not-decided part).",
		Run:        runC13,
	})
}

var listMutators = map[string]bool{"InsertValue": true, "InsertValues": true, "AppendValue": true, "AppendValues": true, "RemoveValue": true, "RemoveValues": true,
	"RemoveAll": true, "SetValue": true, "SetValues": true, "SortValues": true, "SortValuesWithRanker": true, "ReverseValues": true, "ShuffleValues": true}

// sizeResolver makes GetSize()/len()/IsEmpty() of anything rooted at the
// receiver's storage evaluate to the symbol `size`.
func sizeResolver(info *types.Info, recv types.Object, symName string) func(e ast.Expr) (Val, bool) {
	return sizeResolverEnv(nil, info, recv, symName)
}

// sizeResolverEnv: as sizeResolver; with env given, receivers of inlined helper frames count too.
func sizeResolverEnv(env *symEnv, info *types.Info, recv types.Object, symName string) func(e ast.Expr) (Val, bool) {
	recvRooted := func(info *types.Info, x ast.Expr, recv types.Object) bool {
		if env != nil && env.isRecvRooted(x) {
			return true
		}
		return recvRooted(info, x, recv)
	}
	return func(e ast.Expr) (Val, bool) {
		call, ok := e.(*ast.CallExpr)
		if !ok {
			return Val{}, false
		}
		if isBuiltinCall(info, call, "len") && len(call.Args) == 1 && recvRooted(info, call.Args[0], recv) {
			return Val{Lin: linSym(symName)}, true
		}
		if rx, name, _, ok := methodCall(call); ok && len(call.Args) == 0 && recvRooted(info, rx, recv) {
			switch name {
			case "GetSize":
				return Val{Lin: linSym(symName)}, true
			case "IsEmpty":
				return Val{B: eq(sym(symName), k(0))}, true
			}
		}
		return Val{}, false
	}
}

func runC13(c *Ctx, r *Rec) {
	stk := c.mustImpl(r, "bind", "collection", "StackLike")
	cls := c.mustImpl(r, "bind", "collection", "StackClassLike")
	if stk == nil || cls == nil {
		return
	}
	info := c.info("collection")
	st := structOf(stk)
	storage := c.fieldOfIface(stk, "collection", "ListLike")
	var capF *types.Var
	if st != nil {
		for _, f := range flatFields(stk) {
			if b, ok := f.Type().Underlying().(*types.Basic); ok && b.Info()&types.IsInteger != 0 {
				capF = f
			}
		}
	}
	if storage == nil || capF == nil {
		r.skip("bind", "collection."+stk.Obj().Name(), "", "the stack is not built on a list (ListLike field) with an integer capacity field: the rules about guards, the one end and the views are bound to that design and are not evaluated")
		shapeLints(c, r, append(fileFuncs(c, "collection", stk, cls), moduleFuncsReturning(c, "StackLike")...))
		return
	}

	checkReceiverWrites(c, r, "D4-receiver-writes-persist", stk)
	checkResetCompleteness(c, r, "D4-reset-complete", stk)
	checkReadersWriteNothing(c, r, "D4-readers-write-nothing", stk)
	checkUnsignedExtremes(c, r, "D2-unsigned-extremes", fileFuncs(c, "collection", stk), map[*types.Var]bool{capF.Origin(): true})
	checkMakeLenThenAppend(c, r, "D1-made-length-not-appended-to", append(fileFuncs(c, "collection", stk), c.allFuncDecls("module")...))
	checkTypeLockPairing(c, r, "D4-lock-released", stk)
	{
		fds := append(fileFuncs(c, "collection", stk, cls), moduleFuncsReturning(c, "StackLike")...)
		for _, nm := range []string{"ArrayLike", "ListLike", "ArrayClassLike", "ListClassLike"} {
			if n, err := c.impl("collection", nm); err == nil && n != nil {
				fds = append(fds, fileFuncs(c, "collection", n)...)
			}
		}
		shapeLints(c, r, fds)
	}
	checkDefaultOnlyForZero(c, r, "D1-requested-capacity-honoured", fileFuncs(c, "collection", cls))
	// ---- D1 constructors
	cms := c.methodsOf(cls)
	// every literal of the stack struct in the class's methods (constructors and their private helpers)
	var lits []*ast.CompositeLit
	litIn := map[*ast.FuncDecl]bool{}
	for _, name := range sortedKeys(cms) {
		ast.Inspect(cms[name].Body, func(x ast.Node) bool {
			if cl, ok := x.(*ast.CompositeLit); ok {
				if n := derefNamed(info.Types[cl].Type); n != nil && n.Origin() == stk.Origin() {
					lits = append(lits, cl)
					litIn[cms[name]] = true
				}
			}
			return true
		})
	}
	for _, name := range sortedKeys(cms) {
		fd := cms[name]
		// exported constructors only: a private helper that holds the literal is interpreted in
		// place, with the arguments its callers give it
		if !ast.IsExported(name) {
			continue
		}
		reaches := litIn[fd]
		ast.Inspect(fd.Body, func(x ast.Node) bool {
			if call, ok := x.(*ast.CallExpr); ok {
				if cf := calleeOf(info, call); cf != nil && !cf.Exported() {
					if d := c.declOf(cf); d != nil && litIn[d] {
						reaches = true
					}
				}
			}
			return true
		})
		if !reaches {
			continue
		}
		construct := c.fdName(fd)
		env := &symEnv{info: info}
		type capRec struct {
			cap  Val
			size *Lin
			cube Cube
			pos  token.Pos
		}
		var caps []capRec
		var tracker *sizeTracker
		tracker = newSizeTracker(info, fd, env, func(e ast.Expr) (Val, bool) {
			x, ok := e.(*ast.UnaryExpr)
			if !ok || x.Op != token.AND {
				return Val{}, false
			}
			cl, ok := x.X.(*ast.CompositeLit)
			if !ok {
				return Val{}, false
			}
			for _, l := range lits {
				if l != cl {
					continue
				}
				rec := capRec{cube: append(Cube{}, env.cur.cube...), pos: cl.Pos()}
				for _, el := range cl.Elts {
					kv, ok := el.(*ast.KeyValueExpr)
					if !ok {
						continue
					}
					id, _ := kv.Key.(*ast.Ident)
					if id == nil {
						continue
					}
					fv, _ := info.Uses[id].(*types.Var)
					if fv == nil {
						continue
					}
					switch fv.Origin() {
					case capF:
						rec.cap = env.eval(env.cur, kv.Value)
					case storage:
						rec.size = tracker.sizeAt(env.cur, kv.Value)
					}
				}
				caps = append(caps, rec)
				return Val{Opaque: "new-stack"}, true
			}
			return Val{}, false
		})
		// unsigned quantities are non-negative
		if cst := structOf(cls); cst != nil {
			for i := 0; i < cst.NumFields(); i++ {
				if b, ok := cst.Field(i).Type().Underlying().(*types.Basic); ok && b.Info()&types.IsUnsigned != 0 {
					env.base = append(env.base, sym(objKey(cst.Field(i))).scale(-1))
				}
			}
		}
		for _, p := range paramObjs(info, fd) {
			if b, ok := p.Type().Underlying().(*types.Basic); ok && b.Info()&types.IsUnsigned != 0 {
				env.base = append(env.base, sym(p.Name()).scale(-1))
			}
		}
		enableInlining(c, env, fd, nil)
		symRun(env, fd.Body)
		if len(env.problems) > 0 {
			r.skip("D1-capacity-at-birth", construct, c.pos(fd.Pos()), strings.Join(dedup(env.problems), "; "))
			continue
		}
		if len(caps) == 0 {
			r.skip("D1-capacity-at-birth", construct, c.pos(fd.Pos()), "the stack literal was not reached by the interpreter")
			continue
		}
		bad := ""
		for _, cr := range caps {
			if cr.cap.Lin == nil || hasOpaque(cr.cap.Lin) {
				if bad == "" {
					bad = "skip: the capacity given to the new stack is not an integer form of the inputs"
				}
				continue
			}
			if cr.size == nil {
				if bad == "" {
					bad = "skip: the number of values in the list the new stack adopts cannot be tracked"
				}
				continue
			}
			full := append(append(Cube{}, env.base...), cr.cube...)
			if sat, dec := satF(full, lt(cr.cap.Lin, cr.size)); sat || !dec {
				bad = fmt.Sprintf("the new stack adopts a list holding %s values but its capacity is %s, which is smaller for some inputs (on {%s}, n = number of caller-supplied values): the stack is born over capacity and AddValue's equality test never fires", cr.size, cr.cap.Lin, full)
			}
		}
		r.verdict("D1-capacity-at-birth", construct, c.pos(fd.Pos()), fmt.Sprintf("capacity >= number of values in the adopted list at the point of construction, on all integers (%d literal evaluations)", len(caps)), bad)
	}
	r.floorSoft("D1-capacity-at-birth", "collection.stack/constructors", "no exported constructor reaches a literal of the stack type that sets the capacity and the list (built field by field, say)")
	checkStorageOwned(c, r, "D1-storage-owned", info, stk, cls, storage)

	// ---- D1c nobody creates a stack and pushes more values on it than the capacity it was given
	for _, role := range []string{"collection", "cdcn", "module"} {
		for _, fd := range c.allFuncDecls(role) {
			if fd.Body != nil {
				checkBoundedFill(c, r, "D1-no-overfill", c.info(role), fd, "stack")
			}
		}
	}

	// ---- D2 guards, D3 ends
	ms := c.methodsOf(stk)
	capSym := sym(objKey(capF))
	if fd := ms["AddValue"]; fd != nil {
		construct := c.fdName(fd)
		recv := recvObj(info, fd)
		env := &symEnv{info: info}
		env.resolve = sizeResolverEnv(env, info, recv, "size")
		enableInlining(c, env, fd, nil) // private predicates (isFull) are interpreted in place
		env.base = Cube{sym("size").scale(-1), capSym.scale(-1)}
		paths := symRun(env, fd.Body)
		var viol []string
		for _, p := range paths {
			inserts := 0
			for _, cl := range p.Calls {
				if strings.HasSuffix(cl, "."+storage.Name()+".InsertValue") {
					inserts++
				}
			}
			full := append(append(Cube{}, env.base...), p.Cube...)
			if sat, _ := satF(full, eq(sym("size"), capSym)); sat && p.Kind != "panic" {
				viol = append(viol, fmt.Sprintf("on {%s} the stack is full (size = capacity) but AddValue does not panic", full))
			}
			if sat, _ := satF(full, lt(sym("size"), capSym)); sat {
				if p.Kind == "panic" {
					viol = append(viol, fmt.Sprintf("on {%s} the stack has room (size < capacity) but AddValue panics", full))
				} else if inserts != 1 {
					viol = append(viol, fmt.Sprintf("on {%s} AddValue inserts %d times, required exactly once", full, inserts))
				}
			}
			if p.Kind == "panic" && inserts > 0 {
				viol = append(viol, "AddValue inserts before it panics: the stack is changed by a refused call")
			}
		}
		switch {
		case len(env.problems) > 0:
			r.skip("D2-guards", construct, c.pos(fd.Pos()), strings.Join(dedup(env.problems), "; "))
		case len(viol) > 0:
			r.fail("D2-guards", construct, c.pos(fd.Pos()), strings.Join(dedup(viol), " | "))
		default:
			r.ok("D2-guards", construct, c.pos(fd.Pos()), "panics on size = capacity before touching the storage, inserts exactly once on size < capacity")
		}
		// D3: insert at slot 0 the value parameter
		params := paramObjs(info, fd)
		okEnd, n := true, 0
		inspectNoLit(fd.Body, func(x ast.Node) bool {
			if rx, mname, call, ok := methodCall(x); ok && selectorField(info, rx) == storage && listMutators[mname] {
				n++
				if mname != "InsertValue" || len(call.Args) != 2 {
					okEnd = false
					return true
				}
				tv := info.Types[call.Args[0]]
				if tv.Value == nil || tv.Value.String() != "0" {
					okEnd = false
				}
				if len(params) != 1 || !isObj(info, call.Args[1], params[0]) {
					okEnd = false
				}
			}
			return true
		})
		r.check(okEnd && n == 1, "D3-one-end", construct, c.pos(fd.Pos()), "InsertValue(0, value): the new value becomes the first element", "AddValue does not insert its parameter at slot 0 of the storage (the top is the first element: RemoveTop removes index 1 and the views list top first)")
	} else {
		r.undecided("D2-guards", "collection."+stk.Obj().Name()+".AddValue", "", "method not found")
	}
	if fd := ms["RemoveTop"]; fd != nil {
		construct := c.fdName(fd)
		recv := recvObj(info, fd)
		env := &symEnv{info: info}
		env.resolve = sizeResolverEnv(env, info, recv, "size")
		enableInlining(c, env, fd, nil) // private predicates (isFull) are interpreted in place
		env.base = Cube{sym("size").scale(-1)}
		paths := symRun(env, fd.Body)
		var viol []string
		for _, p := range paths {
			full := append(append(Cube{}, env.base...), p.Cube...)
			if sat, _ := satF(full, eq(sym("size"), k(0))); sat && p.Kind != "panic" {
				viol = append(viol, fmt.Sprintf("on {%s} the stack is empty but RemoveTop does not panic", full))
			}
			if sat, _ := satF(full, gt(sym("size"), k(0))); sat {
				removed := false
				for _, cl := range p.Calls {
					if strings.Contains(cl, "."+storage.Name()+".RemoveValue") {
						removed = true
					}
				}
				for _, sv := range p.State {
					if strings.Contains(sv.Opaque, "."+storage.Name()+".RemoveValue(") {
						removed = true
					}
				}
				if p.Kind == "panic" && removed {
					// a panic behind the removal is a check of its outcome (the size the rule reasons
					// with is the one before the removal), not a refusal
				} else if p.Kind == "panic" {
					viol = append(viol, fmt.Sprintf("on {%s} the stack is not empty but RemoveTop panics", full))
				} else if len(p.Rets) != 1 || !strings.Contains(p.Rets[0].Opaque, "."+storage.Name()+".RemoveValue(") {
					viol = append(viol, fmt.Sprintf("on {%s} RemoveTop returns %v, required the value removed at index 1 of the storage", full, p.Rets))
				}
			}
		}
		// the index removed is the constant 1 (the top of the stack is the first value of the list)
		inspectNoLit(fd.Body, func(x ast.Node) bool {
			if rx, mname, call, ok := methodCall(x); ok && mname == "RemoveValue" && selectorField(info, rx) == storage && len(call.Args) == 1 {
				if tv := info.Types[call.Args[0]]; tv.Value == nil || tv.Value.String() != "1" {
					viol = append(viol, "RemoveTop removes index "+exprStr(call.Args[0])+" of the storage, required index 1 (the end AddValue inserts at)")
				}
			}
			return true
		})
		switch {
		case len(viol) > 0:
			r.fail("D2-guards", construct, c.pos(fd.Pos()), strings.Join(dedup(viol), " | "))
		case len(env.problems) > 0:
			r.skip("D2-guards", construct, c.pos(fd.Pos()), strings.Join(dedup(env.problems), "; "))
		default:
			r.ok("D2-guards", construct, c.pos(fd.Pos()), "panics exactly when empty, otherwise returns storage.RemoveValue(1)")
		}
	} else {
		r.undecided("D2-guards", "collection."+stk.Obj().Name()+".RemoveTop", "", "method not found")
	}
	r.floor("D2-guards", 2)
	r.floor("D3-one-end", 1)

	// views delegate unchanged
	for _, vname := range []string{"AsArray", "GetIterator", "GetSize", "IsEmpty"} {
		fd := ms[vname]
		if fd == nil {
			r.undecided("D3-views", "collection."+stk.Obj().Name()+"."+vname, "", "method not found")
			continue
		}
		okDel := false
		if len(fd.Body.List) == 1 {
			if rs, ok := fd.Body.List[0].(*ast.ReturnStmt); ok && len(rs.Results) == 1 {
				if rx, mname, call, ok := methodCall(ast.Unparen(rs.Results[0])); ok && mname == vname && len(call.Args) == 0 && selectorField(info, rx) == storage {
					okDel = true
				}
			}
		}
		if okDel {
			r.ok("D3-views", c.fdName(fd), c.pos(fd.Pos()), "returns storage."+vname+"() (top first)")
			continue
		}
		// not a plain delegation: evidence against the view is a reordering or a second source
		tampered := ""
		inspectNoLit(fd.Body, func(x ast.Node) bool {
			if _, mname, _, ok := methodCall(x); ok {
				switch mname {
				case "ReverseValues", "SortValues", "SortValuesWithRanker", "ShuffleValues", "RemoveValue", "RemoveValues", "InsertValue":
					tampered = mname
				}
			}
			return true
		})
		if tampered != "" {
			r.fail("D3-views", c.fdName(fd), c.pos(fd.Pos()), "the view is computed with "+tampered+": its order or content differs from the stack's top-to-bottom order")
		} else {
			r.skip("D3-views", c.fdName(fd), c.pos(fd.Pos()), "the view is not a plain delegation to the storage's "+vname+"()")
		}
	}

	// ---- D4 single gate
	allowed := map[string]string{"AddValue": "InsertValue", "RemoveTop": "RemoveValue", "RemoveAll": "RemoveAll"}
	for _, name := range sortedKeys(ms) {
		fd := ms[name]
		inspectNoLit(fd.Body, func(x ast.Node) bool {
			if rx, mname, call, ok := methodCall(x); ok && selectorField(info, rx) == storage && listMutators[mname] {
				construct := c.fdName(fd) + "/" + mname
				if !ast.IsExported(name) {
					// a private worker: judged by the public operations that reach it
					cg := c.sameTypeCallGraph(stk)
					var gates []string
					for _, pub := range sortedKeys(ms) {
						if !ast.IsExported(pub) {
							continue
						}
						seen := map[string]bool{pub: true}
						for work := []string{pub}; len(work) > 0; {
							cur := work[0]
							work = work[1:]
							for callee := range cg[cur] {
								if !seen[callee] && !ast.IsExported(callee) {
									seen[callee] = true
									work = append(work, callee)
								}
							}
						}
						if seen[name] {
							gates = append(gates, pub)
						}
					}
					bad := ""
					for _, gname := range gates {
						if allowed[gname] != mname {
							bad = fmt.Sprintf("%s reaches %s, which mutates the storage through %s: only AddValue->InsertValue, RemoveTop->RemoveValue and RemoveAll->RemoveAll may", gname, name, mname)
						}
					}
					if len(gates) == 0 {
						r.skip("D4-single-gate", construct, c.pos(call.Pos()), "a private method that no public operation of the stack reaches through methods of the stack")
					} else {
						r.check(bad == "", "D4-single-gate", construct, c.pos(call.Pos()), "the private worker of the gate method and its storage mutator", bad)
					}
					return true
				}
				r.check(allowed[name] == mname, "D4-single-gate", construct, c.pos(call.Pos()),
					"the gate method and its storage mutator", fmt.Sprintf("%s mutates the storage through %s: only AddValue->InsertValue, RemoveTop->RemoveValue and RemoveAll->RemoveAll may", name, mname))
			}
			return true
		})
		// the storage field is never re-assigned after construction
	}
	for _, w := range c.fieldWrites()[storage.Origin()] {
		r.fail("D4-single-gate", c.fdName(w.In)+"/storage-write", c.pos(w.Pos), "the storage field is "+w.How+" outside the constructor")
	}
	r.floor("D4-single-gate", 1)
}

// initOf returns the initialiser expression of the local variable id refers to
// (var x = e  or  x := e) when it has exactly one definition in fd.
func initOf(info *types.Info, fd *ast.FuncDecl, id *ast.Ident) ast.Expr {
	obj := info.Uses[id]
	if obj == nil {
		return nil
	}
	var init ast.Expr
	n := 0
	ast.Inspect(fd.Body, func(x ast.Node) bool {
		switch s := x.(type) {
		case *ast.ValueSpec:
			for i, nm := range s.Names {
				if info.Defs[nm] == obj {
					n++
					if i < len(s.Values) {
						init = s.Values[i]
					}
				}
			}
		case *ast.AssignStmt:
			for i, l := range s.Lhs {
				if lid, ok := l.(*ast.Ident); ok && (info.Defs[lid] == obj || (s.Tok == token.ASSIGN && info.Uses[lid] == obj)) {
					n++
					if len(s.Lhs) == len(s.Rhs) {
						init = s.Rhs[i]
					}
				}
			}
		}
		return true
	})
	if n == 1 {
		return init
	}
	return nil
}

// checkStorageOwned: the storage of a new collection is made by its constructor, never adopted
// from an argument: a container the caller (or another collection) still holds would be shared.
func checkStorageOwned(c *Ctx, r *Rec, rule string, info *types.Info, inst, cls *types.Named, storage *types.Var) {
	cms := c.methodsOf(cls)
	for _, name := range sortedKeys(cms) {
		fd := cms[name]
		params := paramObjs(info, fd)
		// variables bound by a type switch over a parameter stand for that parameter
		aliasOfParam := map[types.Object]types.Object{}
		ast.Inspect(fd.Body, func(x ast.Node) bool {
			ts, ok := x.(*ast.TypeSwitchStmt)
			if !ok {
				return true
			}
			as, ok := ts.Assign.(*ast.AssignStmt)
			if !ok || len(as.Rhs) != 1 {
				return true
			}
			ta, ok := ast.Unparen(as.Rhs[0]).(*ast.TypeAssertExpr)
			if !ok {
				return true
			}
			for _, p := range params {
				if isObj(info, ta.X, p) {
					for _, cl := range ts.Body.List {
						if o := info.Implicits[cl]; o != nil {
							aliasOfParam[o] = p
						}
					}
				}
			}
			return true
		})
		paramOf := func(e ast.Expr) types.Object {
			e = ast.Unparen(e)
			if ta, ok := e.(*ast.TypeAssertExpr); ok {
				e = ast.Unparen(ta.X)
			}
			o := identObj(info, e)
			if o == nil {
				return nil
			}
			for _, p := range params {
				if p == o {
					return p
				}
			}
			return aliasOfParam[o]
		}
		ast.Inspect(fd.Body, func(x ast.Node) bool {
			cl, ok := x.(*ast.CompositeLit)
			if !ok {
				return true
			}
			if n := derefNamed(info.Types[cl].Type); n == nil || n.Origin() != inst.Origin() {
				return true
			}
			for _, el := range cl.Elts {
				kv, ok := el.(*ast.KeyValueExpr)
				if !ok {
					continue
				}
				id, _ := kv.Key.(*ast.Ident)
				if id == nil {
					continue
				}
				if fv, _ := info.Uses[id].(*types.Var); fv == nil || fv.Origin() != storage {
					continue
				}
				construct := c.fdName(fd) + "/storage"
				if p := paramOf(kv.Value); p != nil {
					if ast.IsExported(name) {
						r.fail(rule, construct, c.pos(kv.Pos()), "the new collection adopts the constructor's argument "+p.Name()+" as its storage: the caller keeps a handle on it")
					} else {
						r.skip(rule, construct, c.pos(kv.Pos()), "a private helper receives the storage from its callers")
					}
					continue
				}
				vo := identObj(info, kv.Value)
				if vo == nil {
					r.skip(rule, construct, c.pos(kv.Pos()), "the storage is not given as a variable")
					continue
				}
				bad := ""
				ast.Inspect(fd.Body, func(y ast.Node) bool {
					var rhs ast.Expr
					switch d := y.(type) {
					case *ast.AssignStmt:
						for i, l := range d.Lhs {
							if identObj(info, l) == vo {
								if len(d.Rhs) == len(d.Lhs) {
									rhs = d.Rhs[i]
								} else if len(d.Rhs) == 1 {
									rhs = d.Rhs[0]
								}
							}
						}
					case *ast.ValueSpec:
						for i, nm := range d.Names {
							if info.Defs[nm] == vo {
								if len(d.Values) == len(d.Names) {
									rhs = d.Values[i]
								} else if len(d.Values) == 1 {
									rhs = d.Values[0]
								}
							}
						}
					}
					if rhs == nil {
						return true
					}
					if p := paramOf(rhs); p != nil {
						bad = fmt.Sprintf("the storage %s of the new collection is the argument %s itself (at %s), not a copy made by the constructor: the caller, and every other collection built from the same argument, shares it - values appear that were never added and a bound on the size can be exceeded", vo.Name(), p.Name(), c.pos(rhs.Pos()))
					}
					return true
				})
				r.check(bad == "", rule, construct, c.pos(kv.Pos()), "the storage is created in the constructor", bad)
			}
			return true
		})
	}
}
