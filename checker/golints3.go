package main

// Shapes of Go code around the standard library and around "defensive" additions that are wrong
// wherever they occur (round 12).  Positive evidence only.

import (
	"fmt"
	"go/ast"
	"go/token"
	"go/types"
)

// ---------------------------------------------------------------- a value is not asked whether it is "defined"

// checkValuesNotAskedDefined: the inspector's IsDefined answers false for "", nil and other zero
// things: it is a test for arguments that may be missing.  Applied to a value of the element type
// (a type parameter) it refuses or skips legal values: the empty string and nil are values.
func checkValuesNotAskedDefined(c *Ctx, r *Rec, rule string, fds []*ast.FuncDecl) {
	sites, bad := 0, 0
	for _, fd := range fds {
		info := c.infoFor(fd)
		if info == nil || fd.Body == nil {
			continue
		}
		ast.Inspect(fd.Body, func(x ast.Node) bool {
			_, mname, call, ok := methodCall(x)
			if !ok || mname != "IsDefined" || len(call.Args) != 1 {
				return true
			}
			sites++
			if _, isTP := info.TypeOf(call.Args[0]).(*types.TypeParam); isTP {
				bad++
				r.fail(rule, fmt.Sprintf("%s/IsDefined(%s)", c.fdName(fd), exprStr(call.Args[0])), c.pos(call.Pos()),
					fmt.Sprintf("%s, a value of the element type %s, is asked whether it is \"defined\" at %s: the empty string, nil and the other zero values are not, and they are legal values of a collection: what is refused or skipped under this test is a value the caller gave", exprStr(call.Args[0]), info.TypeOf(call.Args[0]), c.pos(call.Pos())))
			}
			return true
		})
	}
	if bad == 0 {
		r.ok(rule, "defined-tests", "", fmt.Sprintf("%d tests for a defined argument; none is applied to a value of the element type", sites))
	}
}

// ---------------------------------------------------------------- a recover that swallows

// checkRecoverPassesOn: a deferred function that calls recover() and does not panic again with
// what it caught turns a documented panic (an index out of range, the depth limit, a full stack)
// into a silent answer.
func checkRecoverPassesOn(c *Ctx, r *Rec, rule string, fds []*ast.FuncDecl) {
	sites, bad := 0, 0
	for _, fd := range fds {
		info := c.infoFor(fd)
		if info == nil || fd.Body == nil {
			continue
		}
		ast.Inspect(fd.Body, func(x ast.Node) bool {
			ds, ok := x.(*ast.DeferStmt)
			if !ok {
				return true
			}
			lit, ok := ast.Unparen(ds.Call.Fun).(*ast.FuncLit)
			if !ok {
				return true
			}
			recovers, repanics := false, false
			ast.Inspect(lit.Body, func(y ast.Node) bool {
				if call, ok := y.(*ast.CallExpr); ok {
					if isBuiltinCall(info, call, "recover") {
						recovers = true
					}
					if isBuiltinCall(info, call, "panic") {
						repanics = true
					}
				}
				return true
			})
			if !recovers {
				return true
			}
			sites++
			if !repanics {
				bad++
				r.fail(rule, fmt.Sprintf("%s/recover", c.fdName(fd)), c.pos(ds.Pos()),
					fmt.Sprintf("the function deferred at %s recovers from a panic and does not raise it again: a documented panic of the operation (or of what it calls) becomes an ordinary answer", c.pos(ds.Pos())))
			}
			return true
		})
	}
	if bad == 0 {
		r.ok(rule, "recovers", "", fmt.Sprintf("%d deferred functions that recover; each of them raises what it caught again", sites))
	}
}

// ---------------------------------------------------------------- position zero is a position

// checkFoundAtZero: the result of a zero-based search of the standard library (slices.Index,
// slices.IndexFunc, strings.Index, ... : -1 when absent) tested with `> 0` or `<= 0`: a hit at
// position 0 counts as a miss.  (The ordinal convention of this library, 0 = absent, carried over.)
func checkFoundAtZero(c *Ctx, r *Rec, rule string, fds []*ast.FuncDecl) {
	sites, bad := 0, 0
	isSearch := func(info *types.Info, e ast.Expr) *ast.CallExpr {
		call, ok := ast.Unparen(e).(*ast.CallExpr)
		if !ok {
			return nil
		}
		fn := calleeOf(info, call)
		if fn == nil || fn.Pkg() == nil {
			return nil
		}
		switch fn.Pkg().Path() {
		case "slices", "strings", "bytes":
			switch fn.Name() {
			case "Index", "IndexFunc", "IndexByte", "IndexRune", "IndexAny", "LastIndex", "LastIndexFunc", "LastIndexByte", "LastIndexAny":
				return call
			}
		}
		return nil
	}
	for _, fd := range fds {
		info := c.infoFor(fd)
		if info == nil || fd.Body == nil {
			continue
		}
		ast.Inspect(fd.Body, func(x ast.Node) bool {
			be, ok := x.(*ast.BinaryExpr)
			if !ok {
				return true
			}
			var search *ast.CallExpr
			op := be.Op
			if s := isSearch(info, be.X); s != nil {
				search = s
			} else if s := isSearch(info, be.Y); s != nil {
				search = s
				op = map[token.Token]token.Token{token.LSS: token.GTR, token.GTR: token.LSS, token.LEQ: token.GEQ, token.GEQ: token.LEQ}[op]
			} else if id, isId := ast.Unparen(be.X).(*ast.Ident); isId {
				if init := initOf(info, fd, id); init != nil {
					search = isSearch(info, init)
				}
			}
			if search == nil {
				return true
			}
			other := be.Y
			if search == ast.Unparen(be.Y) {
				other = be.X
			}
			v, isConst := constIntExpr(info, other)
			if !isConst {
				return true
			}
			sites++
			if v == 0 && (op == token.GTR || op == token.LEQ) {
				bad++
				r.fail(rule, fmt.Sprintf("%s/%s", c.fdName(fd), exprStr(be)), c.pos(be.Pos()),
					fmt.Sprintf("%s answers a zero-based position, -1 when there is none; the test %s at %s takes a hit at position 0 for a miss", exprStr(search.Fun), exprStr(be), c.pos(be.Pos())))
			}
			return true
		})
	}
	if bad == 0 {
		r.ok(rule, "search-results", "", fmt.Sprintf("%d tests of a zero-based search result against a constant; none takes position 0 for a miss", sites))
	}
}

// ---------------------------------------------------------------- a counter that is stepped up is stepped down on every way out

// checkCountersBalanced: a function that steps an integer field of its receiver up and, further
// down, steps it down again (a depth counter) leaves it as it found it on every normal exit that
// lies behind the step up.
func checkCountersBalanced(c *Ctx, r *Rec, rule string, fds []*ast.FuncDecl) {
	sites, bad := 0, 0
	for _, fd := range fds {
		info := c.infoFor(fd)
		if info == nil || fd.Body == nil || fd.Recv == nil {
			continue
		}
		ups := map[*types.Var]int{}
		downs := map[*types.Var]int{}
		inspectNoLit(fd.Body, func(x ast.Node) bool {
			if s, ok := x.(*ast.IncDecStmt); ok {
				if f := selectorField(info, s.X); f != nil && isIntegerType(f.Type()) {
					if s.Tok == token.INC {
						ups[f]++
					} else {
						downs[f]++
					}
				}
			}
			return true
		})
		for f := range ups {
			if downs[f] == 0 {
				continue
			}
			sites++
			net, why := depthBalanceWith(c, info, fd, f, nil, 0)
			_ = net
			if why != "" && !hasDeferredStep(info, fd, f) {
				bad++
				r.fail(rule, fmt.Sprintf("%s/%s", c.fdName(fd), f.Name()), c.pos(fd.Pos()),
					fmt.Sprintf("%s steps %s up and down, but not on every way out: %s", fd.Name.Name, f.Name(), why))
			}
		}
	}
	if bad == 0 {
		r.ok(rule, "counters", "", fmt.Sprintf("%d functions that step a counter field up and down; each leaves it as it found it on every normal exit", sites))
	}
}

func hasDeferredStep(info *types.Info, fd *ast.FuncDecl, f *types.Var) bool {
	found := false
	ast.Inspect(fd.Body, func(x ast.Node) bool {
		if ds, ok := x.(*ast.DeferStmt); ok {
			ast.Inspect(ds, func(y ast.Node) bool {
				if s, ok := y.(*ast.IncDecStmt); ok && selectorField(info, s.X) == f {
					found = true
				}
				if as, ok := y.(*ast.AssignStmt); ok {
					for _, l := range as.Lhs {
						if selectorField(info, l) == f {
							found = true
						}
					}
				}
				return true
			})
		}
		return true
	})
	return found
}
