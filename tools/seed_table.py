#!/usr/bin/env python3
"""Prints the markdown table of /verif/seeded (for DESIGN.md section 9)."""
import json, glob, os
rows = []
for d in sorted(glob.glob('/verif/seeded/*/')):
    m = json.load(open(os.path.join(d, 'meta.json')))
    kind = m.get('kind', 'defect')
    own = m.get('detected_by', {}).get(m['property'], [])
    rules = sorted({x.split()[0] for x in own})
    others = sorted(k for k in m.get('detected_by', {}) if k != m['property'])
    summ = m['summary'].replace('|', '/').replace('\n', ' ')
    if len(summ) > 150:
        summ = summ[:147] + '...'
    if kind == 'refactoring':
        verdict = 'silent (correct)' if not m.get('detected_by') else 'FALSE ALARM: ' + ', '.join(sorted(m['detected_by']))
    else:
        verdict = (', '.join(rules) if rules else 'MISSED by ' + m['property']) + ((' (also ' + ', '.join(others) + ')') if others else '')
    rows.append('| %s | %s | %s | %s |' % (m['seed'], kind, summ, verdict))
print('| seed | kind | change | verdict of the checks |\n|---|---|---|---|')
print('\n'.join(rows))
