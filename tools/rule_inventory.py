#!/usr/bin/env python3
"""Prints the rule inventory (rule -> number of obligations on the current tree) from /verif/evidence."""
import json, glob
for f in sorted(glob.glob('/verif/evidence/C??.json')):
    d = json.load(open(f)); pr = d['coverage']['per_rule']
    print('* **%s** %s' % (d['property_id'], ', '.join('%s (%d)' % (k, v.get('obligations', 0)) for k, v in sorted(pr.items()))))
