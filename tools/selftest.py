#!/usr/bin/env python3
"""Checker self-test (thorough tier, evidence only).

usage: selftest.py <property|all> [--repo /repo/v4] [--jobs 16]

Applies every catalogue entry of the property to its own scratch copy of the repository
(under $TMPDIR, removed afterwards), compiles it, runs `vcheck -property P` on the copy and
compares with the expectation.  Prints one JSON document.  Never touches /repo.
"""
import json, os, shutil, subprocess, sys, tempfile
from concurrent.futures import ThreadPoolExecutor

HERE = os.path.dirname(os.path.abspath(__file__))
sys.path.insert(0, HERE)
from selftest_catalog import CATALOG

ENV = dict(os.environ, GOFLAGS="-mod=mod", GOPROXY="off", GOSUMDB="off", GOTOOLCHAIN="local")
ENV.pop("GOWORK", None)
VCHECK = os.path.join(os.path.dirname(HERE), "bin", "vcheck")

def run_one(idx, entry, repo):
    prop, rel, subst, expect, rule = entry
    scratch = tempfile.mkdtemp(prefix="selftest.")
    res = {"n": idx, "property": prop, "file": rel, "rewrite": subst[:120], "expect": expect, "rule": rule}
    try:
        dst = os.path.join(scratch, "v4")
        shutil.copytree(repo, dst)
        target = os.path.join(dst, rel)
        before = open(target, "rb").read()
        subprocess.run(["perl", "-0pi", "-e", subst, target], check=False, env=ENV)
        if open(target, "rb").read() == before:
            res["outcome"] = "skipped: the rewrite no longer applies to the current tree"
            return res
        b = subprocess.run(["go", "build", "./..."], cwd=dst, env=ENV, stdout=subprocess.PIPE, stderr=subprocess.STDOUT, text=True)
        if b.returncode != 0:
            res["outcome"] = "skipped: the rewritten tree does not compile"
            return res
        v = subprocess.run([VCHECK, "-property", prop, "-repo", dst, "-evidence", os.path.join(scratch, "ev")],
                           stdout=subprocess.PIPE, stderr=subprocess.STDOUT, text=True, env=ENV)
        fired = sorted({l.split()[2] if l.split()[1].startswith("v4/") or l.split()[1].startswith("/") else l.split()[1]
                        for l in v.stdout.splitlines() if l.startswith(("VIOLATED", "UNDECIDED", "VACUOUS")) and len(l.split()) > 2})
        res["fired"] = fired
        if expect == "silent":
            res["outcome"] = "ok: silent" if v.returncode == 0 else "FALSE ALARM: " + ", ".join(fired)
        else:
            if v.returncode == 0:
                res["outcome"] = "MISSED"
            elif rule and not any(rule in f for f in fired):
                res["outcome"] = "reported by another rule: " + ", ".join(fired)
            else:
                res["outcome"] = "ok: reported"
        return res
    except Exception as e:  # noqa
        res["outcome"] = "error: %s" % e
        return res
    finally:
        shutil.rmtree(scratch, ignore_errors=True)

def run_seed(d, prop, repo):
    """One seeded change of /verif/seeded (a patch written by an independent agent, confirmed on import)."""
    import glob
    m = json.load(open(os.path.join(d, "meta.json")))
    kind = m.get("kind", "defect")
    res = {"seed": m["seed"], "kind": kind, "summary": m.get("summary", "")[:160]}
    scratch = tempfile.mkdtemp(prefix="selftest.")
    try:
        root = os.path.join(scratch, "repo")
        os.makedirs(root)
        shutil.copytree(repo, os.path.join(root, "v4"))
        a = subprocess.run("git init -q . && git apply --whitespace=nowarn %s" % os.path.join(d, "patch.diff"), shell=True, cwd=root, env=ENV,
                           stdout=subprocess.PIPE, stderr=subprocess.STDOUT)
        if a.returncode != 0:
            res["outcome"] = "skipped: the patch no longer applies to the current tree"
            return res
        v = subprocess.run([VCHECK, "-property", prop, "-repo", os.path.join(root, "v4"), "-evidence", os.path.join(scratch, "ev")],
                           stdout=subprocess.PIPE, stderr=subprocess.STDOUT, text=True, env=ENV)
        fired = sorted({l.split()[2] if l.split()[1].startswith(("v4/", "/")) else l.split()[1]
                        for l in v.stdout.splitlines() if l.startswith(("VIOLATED", "UNDECIDED", "VACUOUS")) and len(l.split()) > 2})
        res["fired"] = fired
        if kind == "refactoring":
            res["outcome"] = "ok: silent" if v.returncode == 0 else "FALSE ALARM: " + ", ".join(fired)
        else:
            res["outcome"] = "ok: reported" if v.returncode != 0 else "not reported by this property's check"
        return res
    except Exception as e:  # noqa
        res["outcome"] = "error: %s" % e
        return res
    finally:
        shutil.rmtree(scratch, ignore_errors=True)

def main():
    prop = sys.argv[1] if len(sys.argv) > 1 else "all"
    repo = "/repo/v4"
    jobs = 16
    args = sys.argv[2:]
    for i, a in enumerate(args):
        if a == "--repo":
            repo = args[i + 1]
        if a == "--jobs":
            jobs = int(args[i + 1])
    entries = [(i, e) for i, e in enumerate(CATALOG) if prop == "all" or e[0] == prop]
    with ThreadPoolExecutor(max_workers=jobs) as ex:
        results = list(ex.map(lambda ie: run_one(ie[0], ie[1], repo), entries))
    summary = {"entries": len(results),
               "reported": sum(1 for r in results if r["outcome"].startswith("ok: reported")),
               "reported_by_other_rule": sum(1 for r in results if r["outcome"].startswith("reported by another")),
               "silent_ok": sum(1 for r in results if r["outcome"] == "ok: silent"),
               "missed": sum(1 for r in results if r["outcome"] == "MISSED"),
               "false_alarms": sum(1 for r in results if r["outcome"].startswith("FALSE ALARM")),
               "skipped": sum(1 for r in results if r["outcome"].startswith("skipped")),
               "errors": sum(1 for r in results if r["outcome"].startswith("error"))}
    # the seeded changes of this property (independent agents; see DESIGN.md 0.5)
    import glob
    seeded_dir = os.path.join(os.path.dirname(HERE), "seeded")
    seeds = []
    for d in sorted(glob.glob(os.path.join(seeded_dir, "*", ""))):
        try:
            m = json.load(open(os.path.join(d, "meta.json")))
        except Exception:
            continue
        if prop == "all" or m.get("property") == prop:
            seeds.append((d, m.get("property")))
    with ThreadPoolExecutor(max_workers=jobs) as ex:
        seed_results = list(ex.map(lambda dp: run_seed(dp[0], dp[1], repo), seeds))
    seed_summary = {"seeds": len(seed_results),
                    "defects_reported": sum(1 for r in seed_results if r["kind"] != "refactoring" and r["outcome"] == "ok: reported"),
                    "defects_not_reported": sum(1 for r in seed_results if r["kind"] != "refactoring" and r["outcome"].startswith("not reported")),
                    "refactorings_silent": sum(1 for r in seed_results if r["kind"] == "refactoring" and r["outcome"] == "ok: silent"),
                    "refactorings_alarmed": sum(1 for r in seed_results if r["kind"] == "refactoring" and r["outcome"].startswith("FALSE")),
                    "skipped": sum(1 for r in seed_results if r["outcome"].startswith("skipped"))}
    print(json.dumps({"summary": summary, "results": results, "seeded_summary": seed_summary, "seeded_results": seed_results}, indent=1))

if __name__ == "__main__":
    main()
