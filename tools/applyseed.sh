#!/bin/bash
# usage: applyseed.sh <seed> <props> [extra vcheck flags]  -> runs vcheck on scratch copy with seed applied
set -e
s=$1; p=$2; shift 2
d=$(mktemp -d /tmp/as.XXXX)
mkdir -p $d/repo && cp -r /repo/v4 $d/repo/v4
(cd $d/repo && git init -q . && git apply --whitespace=nowarn /verif/seeded/$s/patch.diff)
${VCHECK:-/verif/bin/vcheck} -property $p -repo $d/repo/v4 -evidence $d/ev "$@" | grep -v '^KNOWN' | cut -c1-600 || true
rm -rf $d
