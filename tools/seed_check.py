#!/usr/bin/env python3
"""Regression over /verif/seeded: applies every patch to a scratch copy and runs vcheck -property all.
Prints one line per seed: defects must be caught by their own property, refactorings must be silent."""
import json, glob, os, shutil, subprocess, sys, tempfile, re
from concurrent.futures import ThreadPoolExecutor
ENV = dict(os.environ, GOFLAGS="-mod=mod", GOPROXY="off", GOSUMDB="off", GOTOOLCHAIN="local"); ENV.pop("GOWORK", None)
WRITE = '--write' in sys.argv  # refresh detected_by in every meta.json (and seeded/TABLE.md)
only = [a for a in sys.argv[1:] if a != '--write']  # optional substrings
def run(d):
    m = json.load(open(os.path.join(d, 'meta.json')))
    s = tempfile.mkdtemp(prefix='sc.')
    try:
        os.makedirs(os.path.join(s, 'repo'))
        shutil.copytree('/repo/v4', os.path.join(s, 'repo', 'v4'))
        subprocess.run('git init -q . && git apply --whitespace=nowarn %s' % os.path.join(d, 'patch.diff'), shell=True, cwd=os.path.join(s, 'repo'), env=ENV, stdout=subprocess.PIPE, stderr=subprocess.STDOUT)
        p = subprocess.run(['/verif/bin/vcheck', '-property', 'all', '-repo', os.path.join(s, 'repo', 'v4'), '-evidence', os.path.join(s, 'ev')], stdout=subprocess.PIPE, stderr=subprocess.STDOUT, text=True, env=ENV)
        fired = {}
        for f in os.listdir(os.path.join(s, 'ev')):
            if f.endswith('.report.json'):
                rep = json.load(open(os.path.join(s, 'ev', f)))
                fired[rep['property_id']] = sorted({"%s[%s]" % (o['rule'], o['status'][:5]) for o in rep['obligations']})
                if WRITE:
                    m.setdefault('_detected', {})[rep['property_id']] = sorted({"%s %s [%s]" % (o['rule'], o['construct'], o['status']) for o in rep['obligations']})
        if WRITE:
            m['detected_by'] = m.pop('_detected', {})
            m['detected_by_own_property'] = m['property'] in m['detected_by']
            head = subprocess.run(['git', '-C', '/verif', 'rev-parse', '--short', 'HEAD'], stdout=subprocess.PIPE, text=True).stdout.strip()
            m['detected_by_checker_at'] = head
            json.dump(m, open(os.path.join(d, 'meta.json'), 'w'), indent=1)
        return m, fired
    finally:
        shutil.rmtree(s, ignore_errors=True)
dirs = [d for d in sorted(glob.glob('/verif/seeded/*/')) if not only or any(o in d for o in only)]
with ThreadPoolExecutor(max_workers=8) as ex:
    res = list(ex.map(run, dirs))
bad = 0
for m, fired in res:
    kind = m.get('kind', 'defect')
    if kind == 'refactoring':
        ok = not fired
        tag = 'ok-silent ' if ok else 'FALSE-ALARM'
    else:
        ok = m['property'] in fired
        tag = 'ok-caught ' if ok else ('cross-only ' if fired else 'MISSED     ')
    if not ok:
        bad += 1
    print(tag, m['seed'], ' '.join('%s:%s' % (p, ','.join(r)) for p, r in sorted(fired.items()))[:230])
print('not ok:', bad, 'of', len(res))
if WRITE:
    open('/verif/seeded/TABLE.md', 'w').write(subprocess.run(['python3', '/verif/tools/seed_table.py'], stdout=subprocess.PIPE, text=True).stdout)
