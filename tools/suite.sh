#!/bin/bash
# runs the repository's pinned suite offline; prints the pass/fail counts
cd /repo/v4 && GOFLAGS=-mod=mod GOPROXY=off GOSUMDB=off go test -vet=off -count=1 -json ./... 2>&1 | python3 -c "
import sys,json
p=f=0
for l in sys.stdin:
    try: e=json.loads(l)
    except: continue
    if e.get('Test') and '/' not in e['Test']:
        if e['Action']=='pass': p+=1
        if e['Action']=='fail': f+=1; print('FAIL',e['Package'],e['Test'])
print('passed',p,'failed',f)
"
