#!/bin/bash
# usage: seed_eval.sh <dir with patch.diff, zz_demo_test.go, meta.json> [properties]
# Confirms a seeded change on a scratch copy of /repo: compiles, suite passes, demo fails
# with the change and passes without; then runs vcheck (all properties unless given).
set -u
D=$(readlink -f $1); PROPS=${2:-all}
export GOFLAGS=-mod=mod GOPROXY=off GOSUMDB=off GOTOOLCHAIN=local; unset GOWORK
S=$(mktemp -d /tmp/seed.XXXXXX)
mkdir -p $S/repo && cp -r /repo/v4 $S/repo/v4
place=$(grep -m1 -o 'place in: *[^ ]*' $D/zz_demo_test.go | sed 's/place in: *//')
[ -z "$place" ] && place=v4
demo_cmd=$(python3 -c "import json;print(json.load(open('$D/meta.json')).get('demo_cmd',''))")
run_demo() { # $1 = tree root
  cp $D/zz_demo_test.go $1/$place/zz_demo_test.go
  (cd $1/v4 && timeout 300 bash -c "${demo_cmd#cd v4 && }" > $S/demo.out 2>&1); rc=$?
  rm -f $1/$place/zz_demo_test.go
  return $rc
}
echo "== demo on the unmodified tree (must pass)"
run_demo $S/repo && echo "DEMO-CLEAN: pass" || { echo "DEMO-CLEAN: FAIL"; tail -5 $S/demo.out; }
echo "== apply patch"
(cd $S/repo && git init -q . 2>/dev/null; git apply --whitespace=nowarn $D/patch.diff) && echo "APPLY: ok" || echo "APPLY: FAIL"
(cd $S/repo/v4 && go build ./... 2>&1 | head -5)
echo "== suite with the change (must pass)"
(cd $S/repo/v4 && go test -vet=off -count=1 ./... 2>&1 | tail -5)
echo "== demo with the change (must fail)"
run_demo $S/repo && echo "DEMO-MUTANT: pass (BAD)" || { echo "DEMO-MUTANT: fail (good)"; grep -m3 -i "fail\|race\|panic\|timed out" $S/demo.out | cut -c1-200; }
echo "== vcheck on the changed tree"
/verif/bin/vcheck -property $PROPS -repo $S/repo/v4 -evidence $S/ev 2>&1 | grep -v "^DISCHARGED\|^KNOWN-FINDING" | grep "VIOLATED\|UNDECIDED\|VACUOUS\|VIOLATION" | cut -c1-420
rm -rf $S
