#!/usr/bin/env python3
"""Confirms a sub-agent's seeded change and files it under /verif/seeded/<id>/.

usage: seed_import.py <property> <src dir with patch.diff, zz_demo_test.go, meta.json> <seed id>

The change is applied to a scratch copy of /repo (never to /repo itself); it is kept only if
  - the patch applies and the tree compiles,
  - the unedited suite still passes with it,
  - the demonstration passes on the unmodified tree and fails with the change.
The verdict of every check on the changed tree is recorded in meta.json.
"""
import json, os, re, shutil, subprocess, sys, tempfile

ENV = dict(os.environ, GOFLAGS="-mod=mod", GOPROXY="off", GOSUMDB="off", GOTOOLCHAIN="local")
ENV.pop("GOWORK", None)

def sh(cmd, cwd, timeout=600):
    try:
        p = subprocess.run(cmd, shell=True, cwd=cwd, env=ENV, stdout=subprocess.PIPE, stderr=subprocess.STDOUT, timeout=timeout, text=True, errors="replace")
        return p.returncode, p.stdout
    except subprocess.TimeoutExpired as e:
        return 124, (e.stdout or "") + "\nTIMEOUT"

def main():
    prop, src, sid = sys.argv[1], os.path.abspath(sys.argv[2]), sys.argv[3]
    meta = json.load(open(os.path.join(src, "meta.json")))
    demo = open(os.path.join(src, "zz_demo_test.go")).read()
    m = re.search(r"place in:\s*(\S+)", demo)
    place = m.group(1) if m else "v4"
    demo_cmd = meta.get("demo_cmd", "")
    demo_cmd = re.sub(r"^\s*cd v4\s*&&\s*", "", demo_cmd)
    scratch = tempfile.mkdtemp(prefix="seedimp.")
    try:
        root = os.path.join(scratch, "repo")
        os.makedirs(root)
        shutil.copytree("/repo/v4", os.path.join(root, "v4"))
        def run_demo():
            dst = os.path.join(root, place, "zz_demo_test.go")
            shutil.copy(os.path.join(src, "zz_demo_test.go"), dst)
            rc, out = sh(demo_cmd, os.path.join(root, "v4"), timeout=420)
            os.remove(dst)
            return rc, out
        rc_clean, out_clean = run_demo()
        if rc_clean != 0:  # one retry: schedule-sensitive demos can be flaky under load
            rc_clean, out_clean = run_demo()
        sh("git init -q .", root)
        rc_apply, out_apply = sh("git apply --whitespace=nowarn %s" % os.path.join(src, "patch.diff"), root)
        rc_build, out_build = sh("go build ./...", os.path.join(root, "v4"))
        rc_suite, out_suite = sh("go test -vet=off -count=1 ./...", os.path.join(root, "v4"))
        rc_mut, out_mut = run_demo()
        ev = os.path.join(scratch, "ev")
        rc_v, out_v = sh("/verif/bin/vcheck -property all -repo %s -evidence %s" % (os.path.join(root, "v4"), ev), "/verif")
        caught = {}
        for line in out_v.splitlines():
            mm = re.match(r"(VIOLATED|UNDECIDED|VACUOUS)\s+(\S*)\s+(D\S+|bind|load|internal)\s+(\S+):", line)
            if mm:
                pass
        # parse per property from the report files
        for f in sorted(os.listdir(ev)) if os.path.isdir(ev) else []:
            if f.endswith(".report.json"):
                rep = json.load(open(os.path.join(ev, f)))
                caught[rep["property_id"]] = sorted({"%s %s [%s]" % (o["rule"], o["construct"], o["status"]) for o in rep["obligations"]})
        kind = meta.get("kind", "defect")
        if kind == "refactoring":
            confirmed = rc_clean == 0 and rc_apply == 0 and rc_build == 0 and rc_suite == 0 and rc_mut == 0
        else:
            confirmed = rc_clean == 0 and rc_apply == 0 and rc_build == 0 and rc_suite == 0 and rc_mut != 0
        result = {
            "seed": sid,
            "kind": kind,
            "property": prop,
            "summary": meta.get("summary", ""),
            "needs_to_manifest": meta.get("needs_to_manifest", ""),
            "demo_cmd": meta.get("demo_cmd", ""),
            "demo_place": place,
            "what_i_ran": [
                "scratch copy of /repo/v4; demonstration on the unmodified copy (must pass): exit %d" % rc_clean,
                "git apply patch.diff: exit %d; go build ./...: exit %d" % (rc_apply, rc_build),
                "unedited suite `go test -vet=off -count=1 ./...` with the change (must pass): exit %d" % rc_suite,
                "demonstration with the change (%s): exit %d" % ("must fail" if kind != "refactoring" else "must still pass", rc_mut),
                "/verif/bin/vcheck -property all on the changed copy",
            ],
            "confirmed": confirmed,
            "demo_failure_excerpt": "\n".join([l for l in out_mut.splitlines() if re.search(r"FAIL|panic|race|TIMEOUT|timed out", l)][:6]),
            "detected_by": caught,
            "detected_by_own_property": prop in caught,
        }
        print(json.dumps({k: result[k] for k in ("seed", "kind", "confirmed", "detected_by_own_property")}), sorted(caught))
        if not confirmed:
            print("NOT CONFIRMED:", rc_clean, rc_apply, rc_build, rc_suite, rc_mut)
            print(out_clean[-400:] if rc_clean else "", out_apply[-300:], out_build[-300:], out_suite[-300:] if rc_suite else "")
            return 1
        dst = os.path.join("/verif/seeded", sid)
        os.makedirs(dst, exist_ok=True)
        shutil.copy(os.path.join(src, "patch.diff"), dst)
        shutil.copy(os.path.join(src, "zz_demo_test.go"), dst)
        json.dump(result, open(os.path.join(dst, "meta.json"), "w"), indent=1)
        return 0
    finally:
        shutil.rmtree(scratch, ignore_errors=True)

if __name__ == "__main__":
    sys.exit(main())
