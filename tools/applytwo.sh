#!/bin/bash
# usage: applytwo.sh <refactoring> <defect> <props> [flags]
set -e
a=$1; b=$2; p=$3; shift 3
d=$(mktemp -d /tmp/as.XXXX)
mkdir -p $d/repo && cp -r /repo/v4 $d/repo/v4
(cd $d/repo && git init -q . && git apply --whitespace=nowarn /verif/seeded/$a/patch.diff && git apply --whitespace=nowarn /verif/seeded/$b/patch.diff)
/verif/bin/vcheck -property $p -repo $d/repo/v4 -evidence $d/ev "$@" | grep -v '^KNOWN' | cut -c1-500 || true
rm -rf $d
