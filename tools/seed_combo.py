#!/usr/bin/env python3
"""Detection after refactoring: for every property, applies each harmless refactoring R of /verif/seeded
together with each defect D (where both patches apply to one scratch copy) and runs the checker.
A defect that the checker reports on the plain tree should still be reported on the refactored tree;
where it is not, the rule lost its footing on the new shape (it says not-evaluated) - that is what
this tool lists.  Usage: seed_combo.py [Cnn ...]   (scratch copies under /tmp, removed at once)"""
import json, glob, os, shutil, subprocess, sys, tempfile
from concurrent.futures import ThreadPoolExecutor
ENV = dict(os.environ, GOFLAGS="-mod=mod", GOPROXY="off", GOSUMDB="off", GOTOOLCHAIN="local"); ENV.pop("GOWORK", None)
props = [a for a in sys.argv[1:] if a.startswith('C')] or ['C%02d' % i for i in range(1, 21)]
seeds = {}
for d in sorted(glob.glob('/verif/seeded/*/')):
    m = json.load(open(d + 'meta.json'))
    seeds[m['seed']] = (d, m)
def fired(repo, prop):
    s = tempfile.mkdtemp(prefix='sk.')
    try:
        subprocess.run(['/verif/bin/vcheck', '-property', prop, '-repo', repo, '-evidence', s], stdout=subprocess.PIPE, stderr=subprocess.STDOUT, env=ENV)
        f = os.path.join(s, prop + '.report.json')
        if not os.path.exists(f):
            return set()
        rep = json.load(open(f))
        return {o['rule'] for o in rep['obligations'] if o['status'] in ('violated', 'undecided', 'vacuous')}
    finally:
        shutil.rmtree(s, ignore_errors=True)
def combo(job):
    prop, rid, did = job
    (rd, rm), (dd, dm) = seeds[rid], seeds[did]
    s = tempfile.mkdtemp(prefix='sk.')
    try:
        os.makedirs(s + '/repo'); shutil.copytree('/repo/v4', s + '/repo/v4')
        subprocess.run('git init -q .', shell=True, cwd=s + '/repo', env=ENV)
        for p in (rd, dd):
            r = subprocess.run('git apply --whitespace=nowarn %spatch.diff' % p, shell=True, cwd=s + '/repo', env=ENV, stdout=subprocess.PIPE, stderr=subprocess.STDOUT)
            if r.returncode != 0:
                return (prop, rid, did, 'no-apply', None)
        b = subprocess.run('go build ./...', shell=True, cwd=s + '/repo/v4', env=ENV, stdout=subprocess.PIPE, stderr=subprocess.STDOUT)
        if b.returncode != 0:
            return (prop, rid, did, 'no-build', None)
        return (prop, rid, did, 'ok', fired(s + '/repo/v4', prop))
    finally:
        shutil.rmtree(s, ignore_errors=True)
jobs = []
for prop in props:
    refs = [k for k, (d, m) in seeds.items() if m['property'] == prop and m.get('kind') == 'refactoring']
    defs = [k for k, (d, m) in seeds.items() if m['property'] == prop and m.get('kind', 'defect') == 'defect' and prop in (m.get('detected_by') or {})]
    for r in refs:
        for d in defs:
            jobs.append((prop, r, d))
with ThreadPoolExecutor(max_workers=12) as ex:
    res = list(ex.map(combo, jobs))
tot = kept = lost = 0
for prop, rid, did, st, rules in res:
    if st != 'ok':
        continue
    tot += 1
    if rules:
        kept += 1
    else:
        lost += 1
        print('LOST', prop, did, 'after', rid)
print('combinations that apply and build: %d; defect still reported: %d; lost: %d' % (tot, kept, lost))
