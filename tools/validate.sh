#!/bin/bash
# validates MANIFEST.json and every evidence file against the schemas
cd /verif && python3-vt - <<'PY'
import json,jsonschema,glob
jsonschema.validate(json.load(open('MANIFEST.json')), json.load(open('/root/.vp/MANIFEST.schema.json')))
n=0
for f in sorted(glob.glob('evidence/C??.json')):
    jsonschema.validate(json.load(open(f)), json.load(open('/root/.vp/EVIDENCE.schema.json'))); n+=1
print('manifest ok; evidence files ok:',n)
PY
