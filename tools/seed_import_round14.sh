#!/bin/bash
# imports every finished round-14 seed of /tmp/wt/Cnn/out/{49,50} that is not yet under /verif/seeded
cd /verif
for p in $(seq -w 1 20); do
  for n in 49 50; do
    src=/tmp/wt/C$p/out/$n
    id=C$p-r14-$n
    if [ -f $src/meta.json ] && [ -f $src/patch.diff ] && [ -f $src/zz_demo_test.go ] && [ ! -d seeded/$id ]; then
      echo "C$p $src $id"
    fi
  done
done | xargs -P 5 -L 1 sh -c 'python3 tools/seed_import.py $0 $1 $2 2>&1 | tail -3'
