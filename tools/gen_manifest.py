#!/usr/bin/env python3
"""Generates /verif/MANIFEST.json.  Edit the tables below, run, commit."""
import json, os, sys

VERIF = os.path.dirname(os.path.dirname(os.path.abspath(__file__)))

# id -> (technique, level text, level note, design ref)
CHECKS = {
    "C01": ("static analysis: octagon abstract interpretation of the ordinal normalisers and slot gates against spec tables (SYM), go/cfg loop-progress, commit-last and reaching-definition rules (PATH)",
            "Decides structural necessary conditions of the ordinal-sequence behaviour on the current source: normaliser = specification on all integers, only normalised positions index storage, slot gates, slice-bound forms, search convention, loop progress, commit-last, no zero ordinals. Not the behaviour over histories.",
            "go/types+go/cfg of x/tools v0.29.0; the spec tables in checker/c01.go; loop-carried element placement is not decided",
            "DESIGN.md 5/C01"),
    "C02": ("static analysis: octagon abstract interpretation of one binary-search step under the inductive invariant size = last-first+1 against the canonical step (SYM), edge-condition and provenance rules for the two mutation gates (PATH), call-site tables",
            "Decides: the set's storage is mutated only at the searched position on the correct found/not-found edge; all queries use the set's own search and collator; the search helper's arithmetic (probe inside the interval, correct half kept per rank, invariant preserved, strict decrease, slot = first-1 on exhaustion) for all integers. Sortedness itself is the induction hypothesis (needs C01's element placement and C07's preorder).",
            "go/types, go/cfg of x/tools v0.29.0; spec of the canonical binary search in checker/c02.go",
            "DESIGN.md 5/C02"),
    "C03": ("static analysis: paired-effect analysis of the key map and the association list per method (EFFECT), path queries on go/cfg for the delete/remove pairing, provenance and dependence closure on the syntax tree",
            "Decides: every change of the key index is coupled with the matching change of the ordered list (same association object, same key, same control region; delete/remove on the same found-paths), reordering methods leave the index alone, the removed list position is located by key identity rather than structural search. Agreement of the views over histories additionally needs C01's element placement.",
            "go/types, go/cfg of x/tools v0.29.0",
            "DESIGN.md 5/C03"),
    "C04": ("static analysis: post-construction write sets and lock-region must-analysis on go/cfg (EFFECT), dominance/pairing rules (PATH) over the queue's methods",
            "Decides the race-freedom and ordering preconditions of the FIFO queue: frozen-or-guarded fields, Lock/Unlock pairing, no blocking operation under the mutex, append-before-publish and receive-before-pop with the pop on the ok edge, capacity/channel agreement. Linearizability over interleavings is not decided.",
            "go/types, go/cfg of x/tools v0.29.0; Go memory model; runtime channel semantics",
            "DESIGN.md 5/C04"),
    "C05": ("static analysis: frozen-field rule for the rendez-vous channel (EFFECT), octagon abstract interpretation of the capacity given to self-filling queue constructors (SYM), close/receive pairing (PATH)",
            "Decides: the channel goroutines park on is never replaced; every function that creates a queue and fills it through the blocking AddValue gives it capacity >= number of values on all integers; CloseQueue closes the channel RemoveHead receives from with the two-value form. Absence of lost wake-ups over schedules is not decided.",
            "go/types, go/cfg of x/tools v0.29.0; runtime channel semantics",
            "DESIGN.md 5/C05"),
    "C06": ("static analysis: go/cfg dominance and per-iteration must-pass rules, iterator typestate (Start/moved) and loop-form classification over the Fork/Split/Join helper goroutines (PATH)",
            "Decides: wait-group Add/Done pairing around each helper goroutine, closing of every output on every path after the input is drained (covering traversal from Start), distribution shape (every output / exactly the next output / next input with wrap check). Conservation and order over schedules are not decided.",
            "go/types, go/cfg of x/tools v0.29.0",
            "DESIGN.md 5/C06"),
    "C07": ("static analysis: octagon abstract interpretation of every rank leaf on the order cells <,=,> plus the IEEE-unordered cell, of the swap-and-invert arms and of the dispatcher's nil ladders with opaque predicates (SYM); kind-table comparison; operand-mirror matching; depth-counter delta dataflow on go/cfg (PATH)",
            "Decides the local ingredients of a total preorder: correct three-way leaves, exact mirrors, undefined-first ladders, agreeing dispatch tables, symmetric operand extraction, balanced depth accounting, sorted map keys, lexicographic loop shape with prefix-first. Transitivity of the composed order over nested values is not decided.",
            "go/types, go/cfg of x/tools v0.29.0; leaf/ladder spec tables in checker/c07*.go",
            "DESIGN.md 5/C07"),
    "C08": ("static analysis: Boolean ladder interpretation of the compare dispatcher (SYM), size-before-content and mirror-operand rules (PATH), call-graph SCC analysis after removal of depth-guarded edges, entry-point reset rule",
            "Decides: compare and rank dispatch the same kinds and agree on ordered leaves; ladders answer true/false/false; sizes are tested before contents and corresponding parts are compared; every recursion cycle of the collator carries depth accounting (else reported); the depth counter is restored at the public entry points. Equivalence-relation laws over the value universe are not decided.",
            "go/types, go/cfg of x/tools v0.29.0",
            "DESIGN.md 5/C08"),
    "C09": ("static analysis: loop-progress forms (PATH), octagon/Fourier-Motzkin abstract interpretation of the merge step under the invariant merged=left+right and of the driver's slice bounds and block tiling (SYM), provenance of element stores, delegation tables",
            "Decides: termination of every sorter loop for every ranker; no invented values; the collections sort their live backing array with the caller's ranker; the merge step is canonical (lesser head taken, cursors consistent, in bounds); the driver merges adjacent, tiling runs between two ping-pong arrays within 0<=left<=middle<=right<=length on all integers; reverse swaps i with len-1-i up to len/2; shuffle only swaps. The global induction over passes is not mechanised.",
            "go/types, go/cfg of x/tools v0.29.0; canonical merge-sort step spec in checker/c09.go",
            "DESIGN.md 5/C09"),
    "C10": ("static analysis: abstract interpretation of the formatter's leaf functions over regular languages (DFA products for inclusion and prefix shadowing against the scanner's token automata, rational transductions for Cut/TrimLeft/slicing, sign refinement) (LANG); converter-pair and name tables; reset-or-restore and depth-balance rules (EFFECT/PATH); call-graph SCCs after guarded-edge removal",
            "Decides that everything an intrinsic leaf can print is scanned back as one token of the intended type (for all values, relative to trusted regular models of strconv), that writer and reader use inverse conversions and one set of type names, that FormatValue's result depends on its argument alone, and reports recursion cycles without depth accounting. Value equality of the round trip is not decided.",
            "go/types, go/cfg of x/tools v0.29.0; regular-language models of strconv producers in checker/cdcn.go (trusted over-approximations)",
            "DESIGN.md 5/C10"),
    "C11": ("static analysis: language equality between the grammar's token definitions (Syntax.cdsn) and the scanner's patterns, prefix-shadow products for all ordered token pairs (LANG); rule/alternative/context tables; error-consumption rule over go/cfg paths; scanner/parser state separation (EFFECT)",
            "Decides: grammar tokens = scanner tokens (8 definitions, as languages), the scan order cannot steal a token (66 pairs), the parser's documented rules, intrinsic alternatives and type contexts agree with the grammar and build the stated kind, no conversion error is dropped, scanner and parser share only the queue. That the recursive descent accepts exactly the rule language is not decided.",
            "go/types, go/cfg of x/tools v0.29.0; CDSN intrinsics (CONTROL, ESCAPE, ...) are undefined in this repository, definitions using them are skipped",
            "DESIGN.md 5/C11"),
    "C12": ("static analysis: definite-assignment and must-pass path queries on go/cfg (PATH), typed assertion rule, epsilon-freeness of token automata (LANG), scan-loop form (LP), close/deferred-drain pairing for the scanner goroutine",
            "Decides the named runtime-error sources: nil token in diagnostics, unchecked assertions on parsed data, error tokens bypassing the diagnostic, a spinning scan loop, an abandoned scanner goroutine; plus loop forms. Totality on arbitrary bytes beyond these is not decided.",
            "go/types, go/cfg of x/tools v0.29.0",
            "DESIGN.md 5/C12"),
    "C13": ("static analysis: octagon abstract interpretation of the stack guards and of the capacity given at construction (SYM), call-site tables for the single mutation gate and the stack end",
            "Decides: no constructor builds a stack whose capacity is below its initial size (all integers), AddValue/RemoveTop guard exactly the full/empty states before touching storage, one end (slot 0 / index 1), views delegate, storage mutated only through the three gates. LIFO over histories is not decided.",
            "go/types of x/tools v0.29.0; spec tables in checker/c13.go; relies on the list's own correctness (C01)",
            "DESIGN.md 5/C13"),
    "C14": ("static analysis: effect signatures (read/write/delete/clear sets with parameter identity) of every method on the receiver's Go map, SSA freshness of constructor results, provenance patterns for per-entry stores and views, loop forms",
            "Decides that each method of the map type is the direct wrapper of the Go map operation it documents (exact effect set, value returned is the value read, len-based size), that constructors copy entry by entry into a map made in the call (every entry stored, so the last wins), and that views are built from the ranged entry. Equivalence over histories then rests on the language's map semantics.",
            "go/types, go/ssa, go/cfg of x/tools v0.29.0; Go map semantics",
            "DESIGN.md 5/C14"),
    "C15": ("static analysis: abstract interpretation of the set class functions over 4-bit membership truth tables with composed sibling summaries (ALG), SSA freshness (FLOW), purity and collator-provenance scans",
            "Decides that And/Or/Sans/Xor compute intersection/union/difference/symmetric difference at the level of abstract membership for a generic element, however they are expressed through the supported vocabulary; that operands are not mutated, results are fresh, and the result uses an operand's collator. Ordering/duplicate-freedom of the result is C02.",
            "go/types, go/ssa of x/tools v0.29.0; the interpreter's vocabulary in checker/c15.go (anything else is UNDECIDED)",
            "DESIGN.md 5/C15"),
    "C16": ("static analysis: shape interpretation of Concatenate/Merge/Extract (segment order, copy-then-override, presence-guarded store) with a dependence closure over the syntax tree (ALG/PATH), SSA freshness (FLOW)",
            "Decides the three documented laws at the level of which operand's items are visited in which order and what is stored under which guard, purity and freshness. That SetValue/AppendValues themselves behave is C03/C01.",
            "go/types, go/ssa of x/tools v0.29.0",
            "DESIGN.md 5/C16"),
    "C17": ("static analysis: octagon abstract interpretation of every iterator method against the cursor transition table under the inductive invariant 0<=slot<=size (SYM), SSA freshness summaries for the snapshot (FLOW), type-graph reachability (EFFECT)",
            "Decides the per-method transition relation of the cursor for all integers (slot, size, argument), in-bounds element access, preservation of the invariant, immutability of the snapshot fields, freshness of the array handed to every iterator, and that no iterator is reachable from shared state. Content of the snapshot is not decided.",
            "go/types, go/ssa of x/tools v0.29.0; spec tables in checker/c17.go",
            "DESIGN.md 5/C17"),
    "C18": ("static analysis: interprocedural SSA value-flow summaries (retains / returns-alias / fresh) to a fixpoint over the call graph with class-hierarchy resolution of repository interfaces (FLOW), plus an operand-discipline rule on the syntax tree",
            "Decides for every exported entry point of the collection package: slice/map arguments do not flow into retained storage or results; slice/map/collection results are allocated in the call and carry no storage of receiver or arguments; bulk operands are read only through snapshot accessors. Element-level pointer sharing is outside the property.",
            "go/ssa of x/tools v0.29.0; standard-library callees assumed not to retain slices",
            "DESIGN.md 5/C18"),
    "C19": ("static analysis: lock-region must-analysis on go/cfg for the class registries, post-construction write sets and type-graph reachability from shared roots (package-level variables, class-struct fields, bound receivers and captures of stored function values) (EFFECT)",
            "Decides race-freedom preconditions for distinct instances: registries accessed only under one mutex in a single get-or-create region, no unsynchronised mutable object reachable from state shared by all instances of a type, package-level variables write-once. Equivalence of concurrent and sequential results is not decided.",
            "go/types, go/cfg of x/tools v0.29.0; Go memory model; allow-list: sync.*, *regexp.Regexp",
            "DESIGN.md 5/C19"),
    "C20": ("static analysis: typed-syntax rule for coinciding type-parameter cases, definite-zero ordinal path query (PATH), per-kind element-operation table against the parser's construction, sibling cross-check of the seven dispatch skeletons, self-fill rule (SYM, shared with C05)",
            "Decides: Association routes both arguments for identical type instantiations; no zero ordinals; each CDCN-source branch is order-equivalent to the parser for its kind; every argument kind is tested once and passed on, the notation reaches the class, emptiness guards are consistent with the default arm. Equality of contents for generated data is not decided.",
            "go/types, go/cfg of x/tools v0.29.0; the per-kind operation table in checker/c20.go",
            "DESIGN.md 5/C20"),
}

NOT_YET = "no structural clause is checked yet in this round; the behavioural property itself quantifies over histories/schedules/inputs that static analysis in reach cannot bound"

ALL = ["C%02d" % i for i in range(1, 21)]

def main():
    checks = []
    for pid in ALL:
        if pid not in CHECKS:
            continue
        tech, text, note, ref = CHECKS[pid]
        checks.append({
            "property_id": pid,
            "quick_cmd": "./bin/vcheck -property %s -tier quick" % pid,
            "thorough_cmd": "./bin/vcheck -property %s -tier thorough" % pid,
            "evidence_file": "evidence/%s.json" % pid,
            "replay_cmd_template": "./bin/vcheck -property %s -explain {path}" % pid,
            "engine": "vcheck",
            "level_claimed": {"category": "other", "text": text, "design_ref": ref},
            "level_note": note,
            "technique": tech,
        })
    na = [{"property_id": p, "reason": NA.get(p, NOT_YET)} for p in ALL if p not in CHECKS]
    m = {
        "version": 1,
        "setup_cmd": "cd /verif/checker && GOFLAGS=-mod=vendor GOPROXY=off GOSUMDB=off GOWORK=off GOTOOLCHAIN=local go build -o /verif/bin/vcheck .",
        "hooks": {
            "guard": "verif",
            "enable": "none needed: the checks read /repo's source (go/packages); nothing in /repo is instrumented",
            "baseline_off_cmd": "cd /repo/v4 && GOFLAGS=-mod=mod GOPROXY=off GOSUMDB=off go test -vet=off -count=1 ./...",
            "source_commits": [],
            "add_only": True,
        },
        "engines": [{
            "name": "vcheck",
            "path": "checker/",
            "serves_properties": sorted(CHECKS),
            "kind_free_text": "one Go binary over go/packages + go/cfg + go/ssa (x/tools v0.29.0, vendored): repository-specific PATH, SYM, FLOW, EFFECT, LANG and ALG rules; loads /repo/v4 afresh on every run, executes nothing",
        }],
        "checks": checks,
        "not_applicable": na,
        "notes": "Every check decides named structural clauses (necessary conditions) of its property by static analysis of the current source; see DESIGN.md section 0 (as built: rules per property, repairs, known findings, seeded changes) and section 5 (what each clause does and does not cover). A rule whose structural pattern cannot be bound on a construct is recorded as not-evaluated in the evidence and does not fail; a rule fails only on positive evidence. known_findings.json lists genuine defects (known or fixed).",
    }
    with open(os.path.join(VERIF, "MANIFEST.json"), "w") as f:
        json.dump(m, f, indent=1)
        f.write("\n")
    print("claimed", len(checks), "not_applicable", len(na))

NA = {}

if __name__ == "__main__":
    main()
