#!/bin/bash
# usage: mut.sh <properties> <file-relative-to-v4> <perl-substitution> [more file/subst pairs...]
# Applies the substitution(s) to a scratch copy of /repo/v4 and runs vcheck on it.
set -u
props=$1; shift
S=$(mktemp -d /tmp/mut.XXXXXX)
cp -r /repo/v4 $S/v4
while [ $# -ge 2 ]; do
  f=$1; e=$2; shift 2
  before=$(md5sum $S/v4/$f)
  perl -0pi -e "$e" $S/v4/$f
  after=$(md5sum $S/v4/$f)
  if [ "$before" == "$after" ]; then echo "MUTATION DID NOT APPLY: $f $e"; fi
done
(cd $S/v4 && GOFLAGS=-mod=mod GOPROXY=off go build ./... 2>&1 | head -5)
/verif/bin/vcheck -property $props -repo $S/v4 -evidence $S/ev 2>&1 | grep -v "^DISCHARGED" | cut -c1-400
rm -rf $S
