// Demonstrations of the known findings K1-K4 against the real code.
// place in: v4/ (package module_test); run with
//   go test -race -count=1 -run 'TestK' -timeout 60s .
// Each test FAILS (or is reported by the race detector) on the current tree:
// that is what makes the finding genuine.  They are documentation, not checks.
package module_test

import (
	"math"
	"os"
	"os/exec"
	"sync"
	"testing"
	"time"

	col "github.com/craterdog/go-collection-framework/v4"
	age "github.com/craterdog/go-collection-framework/v4/agent"
)

// K1 (C04/C05): RemoveAll replaces the channel; a parked consumer is never woken.
func TestK1_ParkedConsumerLostAfterRemoveAll(t *testing.T) {
	var q = col.Queue[int](uint(2))
	var done = make(chan int, 1)
	go func() {
		v, _ := q.RemoveHead() // parks on the old channel
		done <- v
	}()
	time.Sleep(100 * time.Millisecond)
	q.RemoveAll()
	q.AddValue(7) // published on the new channel
	select {
	case v := <-done:
		if v != 7 {
			t.Fatalf("got %v", v)
		}
	case <-time.After(2 * time.Second):
		t.Fatalf("K1: the consumer parked before RemoveAll is never woken by a later AddValue")
	}
}

// K1 (C04): data race on the channel field (run with -race).
func TestK1_RaceOnChannelField(t *testing.T) {
	var q = col.Queue[int](uint(64))
	var wg sync.WaitGroup
	wg.Add(2)
	go func() {
		defer wg.Done()
		for i := 0; i < 200; i++ {
			q.AddValue(i)
			if q.GetSize() > 32 {
				q.RemoveAll()
			}
		}
	}()
	go func() {
		defer wg.Done()
		for i := 0; i < 200; i++ {
			q.RemoveAll()
		}
	}()
	wg.Wait()
}

// K2 (C07/C08): NaN ranks Equal to everything, compares unequal to itself.
func TestK2_NaN(t *testing.T) {
	var c = age.Collator[float64]().Make()
	var nan = math.NaN()
	if c.RankValues(1, nan) == age.EqualRank && c.RankValues(nan, 2) == age.EqualRank && c.RankValues(1, 2) == age.LesserRank {
		t.Errorf("K2: 1 ~ NaN ~ 2 but 1 < 2: RankValues is not transitive")
	}
	if !c.CompareValues(nan, nan) && c.RankValues(nan, nan) == age.EqualRank {
		t.Errorf("K2: CompareValues(NaN, NaN) = false while RankValues(NaN, NaN) = Equal")
	}
}

// K3/K4 overflow the stack (fatal); they are run in a child process.
func TestK3_SelfContainingAssociationOverflowsStack(t *testing.T) {
	if os.Getenv("K_CHILD") == "3" {
		var a = col.Association[string, any]("self", 1)
		a.SetValue(a)
		age.Collator[any]().Make().CompareValues(a, a)
		return
	}
	cmd := exec.Command(os.Args[0], "-test.run=TestK3_SelfContainingAssociationOverflowsStack")
	cmd.Env = append(os.Environ(), "K_CHILD=3")
	out, err := cmd.CombinedOutput()
	if err != nil && len(out) > 0 {
		t.Errorf("K3: comparing a self-containing association kills the process (%v): %.120s", err, out)
	}
}

func TestK4_SelfContainingListOverflowsFormatter(t *testing.T) {
	if os.Getenv("K_CHILD") == "4" {
		var l = col.List[any]()
		l.AppendValue(l)
		_ = col.FormatValue(l)
		return
	}
	cmd := exec.Command(os.Args[0], "-test.run=TestK4_SelfContainingListOverflowsFormatter")
	cmd.Env = append(os.Environ(), "K_CHILD=4")
	out, err := cmd.CombinedOutput()
	if err != nil && len(out) > 0 {
		t.Errorf("K4: formatting a list that contains only itself kills the process (%v): %.120s", err, out)
	}
}
